"""
Boot chython from the working tree named by VERIF_REPO (default /repo).

* puts the CachedMethods shim first on sys.path (DESIGN 0.1, item 1);
* puts the repository working tree on sys.path (chython is not installed in site-packages);
* installs a sys.meta_path finder that executes the three .pyx sources with pyxlite (DESIGN 0.1, item 2);
* silences chython loggers.

Nothing is cached between runs: every import re-reads the working tree.
"""
import importlib.abc
import importlib.machinery
import logging
import os
import sys

HERE = os.path.dirname(os.path.abspath(__file__))
VERIF = os.path.dirname(HERE)
REPO = os.environ.get('VERIF_REPO', '/repo')

PYX = {'chython.algorithms._isomorphism': 'chython/algorithms/_isomorphism.pyx',
       'chython.containers._pack_v2': 'chython/containers/_pack_v2.pyx',
       'chython.containers._unpack_v0v2': 'chython/containers/_unpack_v0v2.pyx'}


class HarnessError(Exception):
    """problem of the verification machinery itself: exit 2, never a VIOLATION"""


class _PyxFinder(importlib.abc.MetaPathFinder, importlib.abc.Loader):
    def find_spec(self, name, path, target=None):
        if name in PYX and os.path.isfile(os.path.join(REPO, PYX[name])):
            return importlib.machinery.ModuleSpec(name, self)

    def create_module(self, spec):
        return None

    def exec_module(self, module):
        from . import pyxlite
        try:
            m = pyxlite.load_pyx(os.path.join(REPO, PYX[module.__name__]), module.__name__)
        except pyxlite.Unsupported as e:
            raise HarnessError(f'pyx executor cannot transliterate {module.__name__}: {e}') from e
        module.__dict__.update({k: v for k, v in m.__dict__.items()
                                if k not in ('__name__', '__spec__', '__loader__', '__package__')})
        module.__pyxlite__ = True


_booted = False


def boot():
    global _booted
    if _booted:
        return
    _booted = True
    shim = os.path.join(HERE, 'shim')
    deps = os.path.join(VERIF, '.deps')
    for p in (deps, REPO, shim):
        if p in sys.path:
            sys.path.remove(p)
    sys.path.insert(0, shim)
    sys.path.insert(1, REPO)
    if os.path.isdir(deps):
        sys.path.append(deps)
    sys.meta_path.insert(0, _PyxFinder())
    logging.getLogger('chython').setLevel(logging.CRITICAL)
    logging.disable(logging.WARNING)
    import warnings
    warnings.filterwarnings('ignore')
    import chython  # noqa
    if not os.path.abspath(chython.__file__).startswith(os.path.abspath(REPO)):
        raise HarnessError(f'chython imported from {chython.__file__}, not from {REPO}')
    try:
        from rdkit import RDLogger
        RDLogger.DisableLog('rdApp.*')
    except Exception:
        pass

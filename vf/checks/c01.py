"""
C01 - canonical SMILES / equality / hash depend on structure only.  DESIGN 2/C01.
metamorphic oracle: every re-description of one structure must give the same canonical string, ==, hash,
the same Morgan class partition (under the known bijection) and an automorphic written order.
"""
import random as _random

from hypothesis import strategies as st

from .. import molgen
from ..core import hyp_run, direct_run, HarnessError
from ..oracles import wl

ID = 'C01'
RULE = ('molecule spec (corpus 4200 / curated / repository test literals / constructive generator with stereo '
        'decoration) x 4 drawn re-descriptions from {rebuild with drawn numbers+atom order+bond order/orientation, '
        'copy+remap, chython random writer r/ra/rA/rh/rAh, RDKit random Kekule spelling, independent reference writer}; '
        'non-trivial = molecule has >=2 atoms in one Morgan class or a stereo label or >=2 components AND the '
        're-description has different numbering/written order; distinct by canonical string'
        '; also: member kind: after a reaction containing the molecule was formatted, its string / hash / equality must be those of a fresh object.'
        '; also: the curated witness list is swept completely on every run.')
ASSUMPTIONS = ['claimed domain decided by an independent colour-refinement/individualisation orbit oracle (vf/oracles/wl.py): '
               'mismatches in gap (a) labelled centre with two same-orbit substituents, or gap (b) cage block with '
               'same-orbit hub atoms, are counted as excluded, not violations',
               'stored stereo is read through _translate_*_sign for the reference environment (parity-checked in C12)',
               'RDKit spelling is produced without RDKit aromaticity perception (Kekule bonds as written by chython)',
               'random permutations inside a re-description are drawn from random.Random(seed) with a Hypothesis-drawn seed']

KINDS = ['rebuild', 'rebuild', 'remap', 'rand:r', 'rand:ra', 'rand:rA', 'rand:rh', 'rand:rAh', 'rdkit', 'ref', 'member']
FORMATS = ['a', 'A', 'h', '!s', 'Ah', 'm']


def case_strategy(tier):
    return st.fixed_dictionaries({
        'mol': molgen.mol_specs(max_atoms=16 if tier == 'quick' else 24),
        'desc': st.lists(st.tuples(st.sampled_from(KINDS), st.integers(0, 2 ** 31)), min_size=4,
                         max_size=4 if tier == 'quick' else 8),
        'fmt': st.sampled_from(FORMATS),
    })


def shards(tier, seed):
    n = 16
    per = 600 if tier == 'quick' else 4500
    return [dict(shard=i, n=per) for i in range(n)] + [dict(shard='curated', part=i) for i in range(4)]


def curated_cases(part, parts, seed, tier):
    """the curated witnesses are swept completely on every run (drawn cases meet a given witness only now and then): each with the
    re-descriptions rotating through all kinds"""
    import random
    for i, s in enumerate(molgen.curated()):
        if i % parts == part:
            rnd = random.Random(seed * 7919 + i)
            kinds = [KINDS[(i + k) % len(KINDS)] for k in range(4)] + ['rebuild', 'rand:r']
            yield {'mol': {'k': 'smi', 's': s}, 'desc': [[k, rnd.randrange(2 ** 31)] for k in kinds], 'fmt': FORMATS[i % len(FORMATS)]}


def run_shard(shard, tier, seed):
    if shard['shard'] == 'curated':
        return direct_run(ID, curated_cases(shard['part'], 4, seed, tier), check_case)
    return hyp_run(ID, case_strategy(tier), check_case, max_examples=shard['n'], seed=seed * 1000 + shard['shard'])


# ---------------------------------------------------------------------------------------------------

class Unreadable(Exception):
    pass


def _reread(text, kind):
    from chython import smiles
    try:
        x = smiles(text)
        molgen.normalise(x)
    except Exception as e:
        raise Unreadable(f'{kind} spelling {text!r} cannot be read back into normal state: {type(e).__name__}: {e}')
    return x


def describe(kind, sd, m, mk, rec):
    """returns (molecule in normal state, mapping old->new or None) or None when the description is not applicable"""
    if kind == 'rebuild':
        x, mp, left = molgen.rebuild(mk, sd)
        if left:
            rec.count('generator-reject:label-not-transferable')
            return None
        x.thiele()
        return x, mp
    if kind == 'remap':
        x, mp = molgen.remap_copy(m, sd)
        return x, mp
    if kind == 'member':
        # the same molecule, freshly rebuilt, after it served as a member of a reaction whose string / hash were taken first
        from chython import ReactionContainer
        x, mp, left = molgen.rebuild(mk, sd)
        if left:
            return None
        x.thiele()
        r = ReactionContainer([x], [m.copy()])
        str(r), hash(r), format(r, 'm')
        return x, mp
    if kind.startswith('rand:'):
        _random.seed(sd)
        text = format(m, kind[5:])
        return _reread(text, kind), None
    if kind == 'rdkit':
        text = rdkit_spelling(mk, sd, rec)
        if text is None:
            return None
        return _reread(text, kind), None
    if kind == 'ref':
        try:
            from ..oracles import smiles_ref
        except ImportError:
            return None
        r = smiles_ref.write_random(m if sd % 2 else mk, sd)
        if r is None:
            rec.count('ref-writer-not-applicable')
            return None
        return _reread(r[0], kind), None
    raise HarnessError(kind)


def rdkit_spelling(mk, sd, rec):
    try:
        from rdkit import Chem
    except ImportError:
        rec.count('rdkit-missing')
        return None
    if any(b.order == 8 for *_, b in mk.bonds()):
        rec.count('rdkit-skip:coordinate-bond')
        return None
    if any(mk.atom(n).stereo is not None for n in mk.stereogenic_allenes) or \
            any(len(p) > 2 and len(p) % 2 == 0 and mk.bond(p[len(p) // 2 - 1], p[len(p) // 2]).stereo is not None
                for p in mk.stereogenic_cumulenes):
        rec.count('rdkit-skip:allene/cumulene stereo unsupported by RDKit')
        return None
    text = str(mk)
    rd = Chem.MolFromSmiles(text, sanitize=False)
    if rd is None:
        rec.count('rdkit-reject')
        return None
    try:
        Chem.SanitizeMol(rd, Chem.SANITIZE_ALL ^ Chem.SANITIZE_SETAROMATICITY ^ Chem.SANITIZE_KEKULIZE ^
                         Chem.SANITIZE_CLEANUP ^ Chem.SANITIZE_CLEANUP_ORGANOMETALLICS)
    except Exception:
        rec.count('rdkit-reject')
        return None
    if rd.GetNumAtoms() != len(mk):
        rec.count('rdkit-reject')
        return None
    try:
        out = Chem.MolToRandomSmilesVect(rd, 1, randomSeed=sd % (2 ** 31 - 1) + 1, kekuleSmiles=True)[0]
    except Exception:
        rec.count('rdkit-reject')
        return None
    # chython supports tetrahedral stereo on carbon only; RDKit never adds labels, so the text carries at most ours
    return out


def partition(order):
    cl = {}
    for n, c in order.items():
        cl.setdefault(c, set()).add(n)
    return {frozenset(v) for v in cl.values()}


def aromatic_perception_differs(m, x):
    """same Kekule graph, different set of aromatised bonds: a thiele() (C05) matter, routed separately"""
    def arom(g):
        return sorted(tuple(sorted((g.atom(i).atomic_symbol, g.atom(j).atomic_symbol))) for i, j, b in g.bonds() if b.order == 4)
    return arom(m) != arom(x)


def mcb_unique(m):
    from ..oracles import mcb
    try:
        return mcb.analyse(mcb.mol_adj(m))['unique']
    except OverflowError:
        return False


def domain(m):
    """('in', None) | ('gap-a'|'gap-b', None) | ('known-c', None) | ('budget', None)"""
    col, adj = wl.constitution(m)
    try:
        orb = wl.orbits(col, adj)
        if wl.gap_a(m, orb):
            return 'gap-a'
        if wl.gap_b(m, orb):
            return 'gap-b'
        if wl.odd_label_orbit(m, orb):
            return 'known-odd'
        if wl.annulene_stereo(m):
            return 'known-annulene'
        if wl.radialene_stereo(m) or wl.ring_diene_stereo(m):
            return 'known-radialene'
        if wl.local_swap_ok(col, adj):
            return 'known-c'
    except TimeoutError:
        return 'budget'
    return 'in'


def check_case(case, rec):
    spec = case['mol']
    try:
        m = molgen.build(spec)
        mk = m.copy()
        mk.kekule()
    except molgen.Reject as e:
        rec.count(f'generator-reject:{e}')
        return
    except Exception as e:
        from chython.exceptions import InvalidAromaticRing
        if isinstance(e, InvalidAromaticRing):
            rec.count('generator-reject:thiele form without kekule form')
            return
        raise
    # hydrogen counts that the valence rules do not determine (e.g. elemental [C], keep_implicit readings) cannot be
    # carried by a rebuild through the public API: such molecules are outside the generator's sound domain
    base, _, left0 = molgen.rebuild(mk, 0, keep_numbers=True, shuffle=False)
    if left0 or molgen.snapshot(base) != molgen.snapshot(mk):
        rec.count('generator-reject:hydrogens/labels not derivable from the graph')
        return
    rec.count(f'source:{spec["k"]}')
    s0 = str(m)
    h0 = hash(m)
    ao = m.atoms_order
    labelled = any(a.stereo is not None for _, a in m.atoms()) or any(b.stereo is not None for *_, b in m.bonds())
    symmetric = len(set(ao.values())) < len(ao)
    multi = m.connected_components_count > 1
    if labelled:
        rec.count('has-stereo')
    if symmetric:
        rec.count('has-morgan-ties')
    if multi:
        rec.count('multi-component')
    dom = None
    snap = molgen.snapshot(m)
    for kind, sd in case['desc']:
        try:
            r = describe(kind, sd, m, mk, rec)
        except Unreadable as e:
            rec.fail('canonical-reread', f'{s0!r}: {e}',
                     sig='aromatic-P-ambiguity' if wl.aromatic_p_ambiguity(m) else
                     ('thiele-mcb-not-unique' if not mcb_unique(m) else f'in-domain:{kind.split(":")[0]}'))
            continue
        if r is None:
            continue
        x, mp = r
        rec.count(f'desc:{kind}')
        sx = str(x)
        differs = list(x) != list(m) or (mp is None)
        if differs and (labelled or symmetric or multi):
            rec.nt(s0)
        bad = None
        if sx != s0:
            bad = ('string', f'{s0!r} != {sx!r} [{kind}]')
        elif not (x == m and m == x) or hash(x) != h0:
            bad = ('eq-hash', f'{s0!r}: ==/hash disagree for equal strings [{kind}]')
        else:
            f = case['fmt']
            if 'm' not in f or mp is None:
                fa, fb = format(m, f), format(x, f)
                if 'm' not in f and fa != fb:
                    bad = ('format', f'format({f!r}): {fa!r} != {fb!r} [{kind}]')
            if bad is None and mp is not None:
                if {frozenset(mp[n] for n in c) for c in partition(ao)} != partition(x.atoms_order):
                    bad = ('morgan-partition', f'{s0!r}: Morgan classes differ under renumbering [{kind}]')
            if bad is None:
                # written orders must be related by an isomorphism
                o0, ox = m.smiles_atoms_order, x.smiles_atoms_order
                if len(o0) != len(ox) or molgen.map_snapshot(snap, dict(zip(o0, ox))) != molgen.snapshot(x):
                    bad = ('written-order', f'{s0!r}: smiles_atoms_order images are not isomorphic [{kind}]')
        if bad is not None:
            if bad[0] == 'string' and aromatic_perception_differs(m, x) and not mcb_unique(m):
                rec.count('mismatch:thiele-mcb-not-unique')
                rec.fail('canonical-string', bad[1], sig='thiele-mcb-not-unique')
                continue
            if dom is None:
                dom = domain(m)
            if dom == 'in' and bad[0] == 'string' and not mcb_unique(m) and \
                    (any(a.stereo is not None for _, a in m.atoms()) or any(b.stereo is not None for *_, b in m.bonds())):
                # stereogenicity of centres on (or next to) ring systems is decided on the perceived ring set: where the minimum
                # cycle basis is not unique two numberings may keep different labels (same root as the SSSR-dependent aromatisation)
                rec.count('mismatch:stereo-mcb-not-unique')
                rec.fail('canonical-string', bad[1], sig='stereo-mcb-not-unique')
                continue
            rec.count(f'mismatch:{dom}')
            if dom in ('gap-a', 'gap-b', 'budget'):
                rec.sample(f'excluded-{dom}', s0)
                continue
            sig = {'known-c': 'swap-test-fails', 'known-annulene': 'annulene-stereo', 'known-odd': 'odd-label-orbit',
                   'known-radialene': 'ring-conjugated-stereo'}.get(
                dom, f'in-domain:{kind.split(":")[0]}')
            rec.fail('canonical-' + bad[0], bad[1], sig=sig)
    if labelled or symmetric or multi:
        rec.sample('nontrivial', s0, cap=8)

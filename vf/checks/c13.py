"""
C13 - edits keep derived views coherent; transactions atomic; copies independent.  DESIGN 2/C13.
Histories are plain lists of operations with integer arguments that are interpreted against the current molecule
(model-based testing): the whole history shrinks as one value and replays without Hypothesis.
"""
import random as _random

from hypothesis import strategies as st

from .. import molgen
from ..core import hyp_run, Violation
from ..oracles import mcb

ID = 'C13'
RULE = ('histories: Kekule seed molecule (corpus <= 30 atoms, curated, constructive) followed by 3-14 operations drawn from '
        '{add_atom, add_bond, delete_atom, delete_bond, transaction commit (charge / radical), transaction that raises (rollback), '
        'remap, copy, substructure, union (|), in-place union (|=), clean_stereo, add stereo label, explicify/implicify} interleaved '
        'with reads of drawn subsets of 14 derived values (so values are cached in every order). after every step an independently '
        'rebuilt molecule (fresh container, same numbers and insertion order, labels transferred through the public setters) must '
        'report the same values; rollback restores the pre-transaction values; editing a derived object leaves its source unchanged. '
        'plus (exhaustive tier) every ordered pair of concrete operations (~145 per seed) on 8 seeds of <= 4 atoms, once with all values '
        'read after every step and once with single rotating reads before and between (quick: 1/40 slice rotating with the seed). '
        'half of the random histories likewise read only at the drawn read steps and at the end. '
        'non-trivial = history has read -> mutate -> read on the same value; distinct by operation list'
        '; also: derived-stereo: copy / substructure / union results denote the configuration of the source.')
ASSUMPTIONS = ['edits are applied to Kekule forms only (aromatic forms are documented as unsupported for editing)',
               'canonical-string comparison is skipped (counted) where the C01 symmetry oracle places the molecule in a documented gap or known finding',
               'valence-invalid intermediate states are allowed; an undefined value must be undefined (same exception type) in the rebuilt molecule too']

OPS = ['add_atom', 'add_atom', 'add_bond', 'add_bond', 'delete_atom', 'delete_bond', 'commit', 'commit', 'rollback', 'remap', 'copy',
       'substructure', 'union', 'ior', 'clean_stereo', 'label', 'read', 'read', 'read', 'hydrogens']
READS = ['str', 'sssr', 'atoms_order', 'smiles_atoms_order', 'brutto', 'float', 'int', 'components', 'rings_count', 'bonds_count',
         'labels', 'compiled', 'chiral', 'fingerprint']
ELEMS = ['C', 'C', 'N', 'O', 'S', 'F', 'Cl', 'H']
PIECES = ['C', 'CC', 'O', 'N', 'C=O', 'C1CC1', 'c1ccccc1', '[Na+]', 'CO', 'C[C@H](N)O']


def shards(tier, seed):
    n = 220 if tier == 'quick' else 4000
    out = [dict(kind='hist', shard=i, n=n) for i in range(16)]
    # exhaustive tier: every pair of concrete operations on tiny seeds (DESIGN 2/C13); quick runs a 1/40 slice rotating with the seed
    parts = 40 if tier == 'quick' else 1
    per = 16
    for i in range(per):
        out.append(dict(kind='exh', part=(seed % parts) * per + i, parts=parts * per))
    return out


TINY = ['CC', 'C=C', 'CCO', 'C1CC1', 'C[C@H](N)O', 'C.O', 'C=CC=C', 'C[NH3+]']


def concrete_ops():
    """every concrete operation the interpreter can perform on a molecule of <= 5 atoms (arguments are taken modulo sizes)"""
    out = []
    for a in (0, 3, 7):
        out.append(('add_atom', a, 0, 0))
        out += [('add_atom', a, b, 4) for b in range(5)]
    out += [('add_bond', a, b, c) for a in range(5) for b in range(a + 1, 5) for c in (0, 3, 5)]
    out += [('delete_atom', a, 0, 0) for a in range(5)]
    out += [('delete_bond', a, 0, 0) for a in range(5)]
    out += [('commit', a, 0, 0) for a in range(5)] + [('commit', a, 1, c) for a in range(5) for c in range(3)]
    out += [('commit', a, 3, c) for a in range(4) for c in range(4)]
    out += [('rollback', a, b, c) for a in range(5) for b in (0, 1) for c in (0, 1)]
    out += [('rollback', a, b, c) for a in range(3) for b in (2, 3) for c in (2, 4)]
    out += [('remap', 0, 0, 0), ('remap', 1, 1, 0), ('copy', 0, 0, 0)]
    out += [('substructure', a, 0, 0) for a in range(3)]
    out += [(op, a, 0, 0) for op in ('union', 'ior') for a in (0, 5, 9)]
    out += [('clean_stereo', 0, 0, 0)] + [('label', a, b, 0) for a in (0, 1) for b in (0, 1)] + [('hydrogens', a, 0, 0) for a in (0, 1)]
    return out


def exhaustive_cases(shard):
    ops = concrete_ops()
    idx = 0
    for smi in TINY:
        for i, o1 in enumerate(ops):
            for j, o2 in enumerate(ops):
                idx += 1
                if idx % shard['parts'] != shard['part']:
                    continue
                # dense: every value is read after every step; sparse: one rotating value before, between and all at the end
                yield {'seed_mol': {'k': 'smi', 's': smi}, 'ops': [list(o1), list(o2)], 'exh': True}
                k1, k2 = (i * 7 + j) % len(READS), (i + j * 5) % len(READS)
                yield {'seed_mol': {'k': 'smi', 's': smi}, 'sparse': True, 'exh': True,
                       'ops': [['read', k1, 0, 0], list(o1), ['read', k2, 0, 0], list(o2)]}


def run_shard(shard, tier, seed):
    if shard['kind'] == 'exh':
        from ..core import direct_run
        return direct_run(ID, exhaustive_cases(shard), check_case)
    op = st.tuples(st.sampled_from(OPS), st.integers(0, 2 ** 16), st.integers(0, 2 ** 16), st.integers(0, 2 ** 16))
    strat = st.fixed_dictionaries({
        'seed_mol': molgen.mol_specs(max_atoms=10, corpus_w=3, curated_w=3, graph_w=6, literal_w=1, sym_w=2),
        'sparse': st.booleans(),
        'ops': st.lists(op, min_size=3, max_size=14)})
    return hyp_run(ID, strat, check_case, max_examples=shard['n'], seed=seed * 1000 + shard['shard'])


# ---------------------------------------------------------------------------------------------------

def derived(m, which=READS, ring_marks=True):
    """dict name -> value or ('EXC', exception type name).  ring_marks=False leaves the SSSR-choice dependent in_ring marks out
    (ring systems whose minimum cycle basis is not unique: two valid perceptions may mark different bonds)"""
    out = {}

    def get(name, f):
        try:
            out[name] = f()
        except Exception as e:
            out[name] = ('EXC', type(e).__name__)
    for w in which:
        if w == 'str':
            get('str', lambda: str(m))
        elif w == 'sssr':
            get('sssr', lambda: sorted(map(len, m.sssr)))
        elif w == 'atoms_order':
            get('atoms_order', lambda: sorted(map(sorted, _partition(m.atoms_order))))
        elif w == 'smiles_atoms_order':
            get('smiles_atoms_order', lambda: sorted(m.smiles_atoms_order) == sorted(m))
        elif w == 'brutto':
            get('brutto', lambda: {k: v for k, v in m.brutto.items() if v})
        elif w == 'float':
            get('float', lambda: round(float(m), 6))
        elif w == 'int':
            get('int', lambda: (int(m), m.is_radical))
        elif w == 'components':
            get('components', lambda: sorted(map(sorted, m.connected_components)))
        elif w == 'rings_count':
            get('rings_count', lambda: m.rings_count)
        elif w == 'bonds_count':
            get('bonds_count', lambda: m.bonds_count)
        elif w == 'labels':
            get('labels', lambda: ({n: (a.neighbors, a.hybridization, a.heteroatoms, a.in_ring if ring_marks else None,
                                        a.implicit_hydrogens, a.explicit_hydrogens) for n, a in m.atoms()},
                                   {frozenset((a, b)): bond.in_ring if ring_marks else None for a, b, bond in m.bonds()}))
        elif w == 'compiled':
            get('compiled', lambda: len(m._cython_compiled_structure))
        elif w == 'chiral':
            get('chiral', lambda: (sorted(m.chiral_tetrahedrons), sorted(map(sorted, m.chiral_cis_trans)), sorted(m.chiral_allenes)))
        elif w == 'fingerprint':
            get('fingerprint', lambda: len(m.linear_hash_set(1, 3)))
    return out


def _partition(order):
    cl = {}
    for n, c in order.items():
        cl.setdefault(c, []).append(n)
    return cl.values()


def plain(m):
    """public-accessor snapshot: atoms in order, neighbour order, attributes, labels presence"""
    return ([(n, a.atomic_symbol, a.isotope, a.charge, a.is_radical, a.implicit_hydrogens, a.stereo is not None)
             for n, a in m.atoms()],
            {n: [(k, b.order, b.stereo is not None) for k, b in nb.items()] for n, nb in m._bonds.items()})


def source_state(m):
    """what must not move when an object derived from m is edited: plain data, canonical string, labels, and the concrete ring list
    (rings as atom tuples: they must stay cycles of m's own bonds)"""
    vals = derived(m, ['str', 'labels', 'atoms_order', 'components', 'compiled'])
    try:
        rings = [tuple(r) for r in m.sssr]
        ok = all(all(r[(i + 1) % len(r)] in m._bonds.get(r[i], ()) for i in range(len(r))) for r in rings)
        vals['rings'] = (sorted(rings), ok)
    except Exception as e:
        vals['rings'] = ('EXC', type(e).__name__)
    return vals


def rebuilt(m):
    """independent reconstruction with the same numbers and insertion order"""
    r, mp, left = molgen.rebuild(m, 0, keep_numbers=True, shuffle=False)
    return r, left


def symmetric_ok(m, rec, where):
    for n, nb in m._bonds.items():
        if n not in m._atoms:
            rec.fail('adjacency', f'{where}: adjacency row for a missing atom {n}')
        for k, b in nb.items():
            if m._bonds.get(k, {}).get(n) is not b:
                rec.fail('adjacency', f'{where}: bonds[{n}][{k}] is not bonds[{k}][{n}]')
    if set(m._bonds) != set(m._atoms):
        rec.fail('adjacency', f'{where}: atoms and adjacency rows differ')


def compare_with_rebuild(m, rec, where, which=READS, pure=False):
    """pure: everything except the requested values is read from a copy, so the cache state of m is touched by `which` only"""
    from ..oracles import wl
    target = m
    if pure:
        m = target.copy()
    ok, val = rec.guard('rebuild', rebuilt, m)
    if not ok:
        return
    r, left = val
    if left:
        try:
            col, adj = wl.constitution(m)
            orb = wl.orbits(col, adj)
            if wl.gap_a(m, orb) or wl.odd_label_orbit(m, orb):
                rec.count('label transfer impossible in the pseudo-asymmetric domain (not asserted)')
                return
        except TimeoutError:
            return
        rec.fail('stale-label', f'{where}: {left} stereo label(s) sit on centres that are not stereogenic in a rebuilt molecule '
                                f'({str(r)!r})', sig='label')
        return
    # labels only on stereogenic centres
    for n, a in m.atoms():
        if a.stereo is not None and n not in m.stereogenic_tetrahedrons and n not in m.stereogenic_allenes:
            rec.fail('stale-label', f'{where}: atom {n} keeps a stereo label but is not a stereogenic centre', sig='atom')
            return
    try:
        unique = mcb.analyse(mcb.mol_adj(r))['unique']
    except OverflowError:
        unique = False
    if not unique:
        # stereogenicity of ring centres is decided on the perceived rings: two valid ring sets may disagree
        which = [w for w in which if w != 'chiral']
        if any(a.stereo is not None for _, a in m.atoms()) or any(b.stereo is not None for *_, b in m.bonds()):
            which = [w for w in which if w != 'str']
        rec.count('ring-set-dependent values skipped (minimum cycle basis not unique)')
    got, want = derived(target, which, unique), derived(r, which, unique)
    for k in got:
        if got[k] != want[k]:
            if k == 'sssr' and not isinstance(got[k], tuple) and not isinstance(want[k], tuple):
                from .c06 import theta_gap
                if theta_gap(mcb.mol_adj(r)):
                    rec.count('ring sizes differ inside the recorded theta-type gap of ring perception (not asserted)')
                    continue
            if k == 'str':
                # canonicalisation defects (C01) are not cache incoherence: decide by the symmetry oracle
                try:
                    col, adj = wl.constitution(r)
                    orb = wl.orbits(col, adj)
                    if wl.gap_a(r, orb) or wl.gap_b(r, orb) or wl.local_swap_ok(col, adj) or wl.odd_label_orbit(r, orb):
                        rec.count('str-mismatch-in-C01-gap-or-known-finding (not asserted)')
                        continue
                except TimeoutError:
                    continue
            rec.fail('derived-value', f'{where}: {k} = {str(got[k])[:160]} but an independently rebuilt molecule gives '
                                      f'{str(want[k])[:160]}', sig=k)
            return
    dm = molgen.compare_stereo(r, m, {n: n for n in m})
    if dm:
        rec.fail('derived-value', f'{where}: stereo labels differ from the rebuilt molecule: {dm[:3]}', sig='stereo')


def check_case(case, rec):
    from chython import smiles, MoleculeContainer
    from chython.exceptions import NotChiral, IsChiral
    try:
        m = molgen.build_kekule(case['seed_mol'])
    except molgen.Reject as e:
        rec.count(f'generator-reject:{e}')
        return
    if len(m) > 30:
        rec.count('skip:seed-too-large')
        return
    m = m.copy()
    # the oracle reconstructs molecules through the API, which derives hydrogen counts: a seed whose stored counts are not the
    # derived ones ([13C] read from text keeps zero hydrogens) cannot be judged that way
    r0, left0 = rebuilt(m)
    if left0 or molgen.snapshot(r0) != molgen.snapshot(m):
        rec.count('generator-reject:seed labels/hydrogens not derivable through the API')
        return
    sparse = bool(case.get('sparse'))
    history = []
    read_before = set()
    mutated_since = False
    nontrivial = False
    sources = []  # (source molecule, its snapshot, how) that must stay unchanged
    for op, a, b, c in case['ops']:
        if not len(m):
            break
        nums = list(m)
        where = f'after {history + [op]} on seed {str(molgen.build_kekule(case["seed_mol"]))!r}'
        rnd = _random.Random(a * 65537 + b)
        mutation = True
        try:
            if op == 'read':
                mutation = False
                which = [READS[(a + i * 5) % len(READS)] for i in range(1 + b % 4)]
                derived(m, which)
                if mutated_since and read_before & set(which):
                    nontrivial = True
                read_before |= set(which)
                history.append(f'read:{",".join(which)}')
                compare_with_rebuild(m, rec, where, which, pure=sparse)
                continue
            if op == 'add_atom':
                n = m.add_atom(ELEMS[a % len(ELEMS)], *([max(nums) + 1 + b % 50] if c % 2 else []))
                if c % 3:
                    m.add_bond(nums[b % len(nums)], n, 1)
                history.append(f'add_atom:{ELEMS[a % len(ELEMS)]}')
            elif op == 'add_bond':
                x, y = nums[a % len(nums)], nums[b % len(nums)]
                if x == y or m.has_bond(x, y):
                    continue
                order = [1, 1, 1, 2, 3, 8][c % 6]
                m.add_bond(x, y, order)
                history.append(f'add_bond:{x}-{y}:{order}')
            elif op == 'delete_atom':
                if len(m) < 2:
                    continue
                x = nums[a % len(nums)]
                m.delete_atom(x)
                history.append(f'delete_atom:{x}')
            elif op == 'delete_bond':
                bl = [(x, y) for x, y, _ in m.bonds()]
                if not bl:
                    continue
                x, y = bl[a % len(bl)]
                m.delete_bond(x, y)
                history.append(f'delete_bond:{x}-{y}')
            elif op == 'commit':
                x = nums[a % len(nums)]
                if b % 4 == 3:
                    # several structural edits in one transaction (hydrogens are recalculated once, at the end)
                    done = []
                    with m:
                        y = nums[(a + 1 + c) % len(nums)]
                        if y != x and not m.has_bond(x, y):
                            m.add_bond(x, y, 1)
                            done.append(f'add_bond:{x}-{y}')
                        bl = [(p, q) for p, q, _ in m.bonds() if {p, q} != {x, y}]
                        if bl:
                            p, q = bl[c % len(bl)]
                            m.delete_bond(p, q)
                            done.append(f'delete_bond:{p}-{q}')
                        if c % 2:
                            k = m.add_atom('C')
                            m.add_bond(nums[c % len(nums)], k, 1)
                            done.append('add_atom')
                        if c % 3 == 0:
                            z = nums[(a + 2) % len(nums)]  # attribute change in the same transaction
                            m.atom(z).charge = 1 if m.atom(z).charge != 1 else 0
                            done.append(f'charge:{z}')
                    history.append('commit[' + ';'.join(done) + ']')
                else:
                    with m:
                        if b % 2:
                            m.atom(x).charge = [-1, 0, 1][c % 3]
                        else:
                            m.atom(x).is_radical = not m.atom(x).is_radical
                    history.append(f'commit:{x}')
            elif op == 'rollback':
                # sparse histories cache only a few values before the transaction (which ones rotates with the arguments)
                rb_which = READS if not sparse else [READS[(a + i * 3) % len(READS)] for i in range(3)]
                before_plain, before_vals = plain(m), derived(m, rb_which)
                x = nums[a % len(nums)]
                inside = []
                try:
                    with m:
                        m.atom(x).charge = 1 if m.atom(x).charge != 1 else 0
                        if b % 2:
                            m.add_atom('C')
                        if c % 2 and len(m) > 2:
                            m.delete_atom(nums[(a + 1) % len(nums)])
                        if (b // 2) % 2:
                            y = nums[(a + 2) % len(nums)]
                            if y != x and y in m._atoms and not m.has_bond(x, y):
                                m.add_bond(x, y, 1)   # may close a ring / join components
                        if (c // 2) % 3:
                            # a validity check inside the block: derived values of the state that is about to be rejected
                            inside = [READS[(a + i * 3) % len(READS)] for i in range(1 + (c // 2) % 3)]
                            derived(m, inside)
                        raise RuntimeError('abort')
                except RuntimeError:
                    pass
                history.append('rollback' + (f'(read inside: {",".join(inside)})' if inside else ''))
                if plain(m) != before_plain:
                    rec.fail('rollback', f'{where}: molecule differs from the state before the failed transaction', sig='plain')
                    return
                after = derived(m, rb_which)
                for k in after:
                    if after[k] != before_vals[k]:
                        rec.fail('rollback', f'{where}: {k} = {str(after[k])[:120]} after rollback, {str(before_vals[k])[:120]} before',
                                 sig=k)
                        return
            elif op == 'remap':
                new = rnd.sample(range(1, 400), len(nums))
                tmp = {n: 10000 + i for i, n in enumerate(nums)}
                m.remap(tmp)
                m.remap({tmp[n]: k for n, k in zip(nums, new)})
                history.append('remap')
            elif op == 'copy':
                src = m
                sources.append((src, plain(src), source_state(src), 'copy'))
                m = m.copy()
                history.append('copy')
            elif op == 'substructure':
                sub = [n for n in nums if rnd.random() < .7] or nums[:1]
                src = m
                sources.append((src, plain(src), source_state(src), 'substructure'))
                m = m.substructure(sub)
                history.append(f'substructure:{len(sub)}')
            elif op in ('union', 'ior'):
                other = smiles(PIECES[a % len(PIECES)])
                other.kekule()
                if op == 'union':
                    src = m
                    sources.append((src, plain(src), source_state(src), 'union'))
                    sources.append((other, plain(other), source_state(other), 'union-operand'))
                    m = m | other
                else:
                    sources.append((other, plain(other), source_state(other), 'ior-operand'))
                    m |= other
                history.append(f'{op}:{PIECES[a % len(PIECES)]}')
            elif op == 'clean_stereo':
                m.clean_stereo()
                history.append('clean_stereo')
            elif op == 'label':
                cand = sorted(m.chiral_tetrahedrons)
                if not cand:
                    continue
                x = cand[a % len(cand)]
                m.add_atom_stereo(x, m.stereogenic_tetrahedrons[x], bool(b % 2))
                history.append(f'label:{x}')
            elif op == 'hydrogens':
                from chython.exceptions import ValenceError
                try:
                    if a % 2:
                        m.explicify_hydrogens()
                        history.append('explicify')
                    else:
                        m.implicify_hydrogens()
                        history.append('implicify')
                except ValenceError:
                    history.append('hydrogens:ValenceError (documented for valence-invalid states)')
        except Violation:
            raise
        except Exception as e:
            from ..core import chython_frame
            fr = chython_frame(e.__traceback__)
            if fr == 'outside-chython':
                raise
            rec.fail('edit-raises', f'{where}: {type(e).__name__}: {e} at {fr}', sig=f'{op}:{type(e).__name__}@{fr}')
            return
        # a derived object (copy / substructure / union) must describe the configuration of its source: every labelled centre whose
        # neighbourhood is intact carries the same configuration, read for the source's own reference environment
        if op in ('copy', 'substructure', 'union', 'ior') and sources:
            src = sources[-1][0] if op != 'ior' else None
            if src is not None and op == 'union':
                src = sources[-2][0]
            if src is not None:
                for n, env in src.stereogenic_tetrahedrons.items():
                    if src.atom(n).stereo is None or n not in m._atoms or set(src._bonds[n]) != set(m._bonds[n]):
                        continue
                    if m.atom(n).stereo is None:
                        continue  # stereogenicity may legitimately be lost in a fragment
                    if n in m.stereogenic_tetrahedrons and \
                            m._translate_tetrahedron_sign(n, env) != src._translate_tetrahedron_sign(n, env):
                        rec.fail('derived-stereo', f'{where}: centre {n} has the opposite configuration in the {op} result', sig=op)
                        return
                for (a_, b_), env in src.stereogenic_cis_trans.items():
                    i, j = src._stereo_cis_trans_centers[a_]
                    if src.bond(i, j).stereo is None or not all(x in m._atoms for x in (a_, b_, i, j, env[0], env[1])):
                        continue
                    if (a_, b_) not in m.stereogenic_cis_trans or m.bond(i, j).stereo is None or \
                            set(src._bonds[a_]) != set(m._bonds[a_]) or set(src._bonds[b_]) != set(m._bonds[b_]):
                        continue
                    if m._translate_cis_trans_sign(a_, b_, env[0], env[1]) != src._translate_cis_trans_sign(a_, b_, env[0], env[1]):
                        rec.fail('derived-stereo', f'{where}: double bond {i}-{j} has the opposite configuration in the {op} result',
                                 sig=op)
                        return
        if mutation:
            mutated_since = True
        where = f'after {history} on seed {str(molgen.build_kekule(case["seed_mol"]))!r}'
        symmetric_ok(m, rec, where)
        if not sparse:
            compare_with_rebuild(m, rec, where)
        for src, snap, vals, how in sources[-3:]:
            now = source_state(src)
            if plain(src) != snap or now != vals or not (now['rings'][1] is True or now['rings'][0] == 'EXC'):
                what = [k for k in now if now[k] != vals.get(k)] or ['atoms/bonds']
                rec.fail('independence', f'{where}: the source of a {how} changed when the derived object was edited ({what})',
                         sig=how)
                return
    if sparse and len(m):
        compare_with_rebuild(m, rec, f'at the end of {history} on seed {str(molgen.build_kekule(case["seed_mol"]))!r}')
    rec.count('mode:sparse-reads' if sparse else 'mode:all-values-after-every-step')
    if case.get('exh'):
        rec.count('exhaustive-pairs')
        if len(history) >= 2:
            rec.nt(tuple(history))
        return
    if nontrivial:
        rec.nt(tuple(history))
        rec.sample('history', history, cap=6)
    rec.count(f'history-length:{min(len(history) // 4 * 4, 12)}')

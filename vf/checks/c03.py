"""
C03 - the SMILES reader builds the molecule the text denotes and rejects the rest.  DESIGN 2/C03.
tiers: D1 grammar/graph-generated valid strings with known denotation (independent writer), D2 exhaustive token
sequences, D3 single-edit corruptions; thorough adds an atheris campaign (vf/checks/c03_fuzz.py).
"""
import itertools
import random as _random

from hypothesis import strategies as st

from .. import molgen
from ..core import hyp_run, direct_run, HarnessError
from ..oracles import smiles_ref
from ..oracles.smiles_ref import RefInvalid

ID = 'C03'
RULE = ('D1: molecule/reaction specs spelled by the independent random writer (drawn DFS order, bracket/organic atoms, '
        'closure numbers 1-99, marks on chain and ring-closure bonds, CX radicals/fragments) and read by chython: compared '
        'atom-for-atom with the generating graph, with the reference reader and (semantics incl. stereo) with RDKit; '
        'D2: every sequence of <= 4 tokens (5 thorough) over a 24-token alphabet; D3: single-token corruptions of corpus '
        'strings. oracles: only ValueError subclasses may escape; reference-valid strings must be accepted and equal; '
        'atom maps (none / all / dense partial) in molecule and reaction text become atom numbers; every element symbol in four letter cases in six contexts. hard-invalid strings must be rejected. non-trivial = >= 2 atoms and a branch, closure, bracket atom, stereo mark, '
        'CX block or reaction arrow; distinct by string'
        '; also: component-start spellings are also placed in later components.'
        '; also: source-text clause: every corpus / curated text is also read by RDKit and converted by the bridge; every label RDKit reads must be read with the same sense. writer styles start the string / a later component at a labelled centre. the curated witness list is swept completely on every run.')
ASSUMPTIONS = ['reference reader/writer vf/oracles/smiles_ref.py written for this task from the OpenSMILES subset chython documents',
               'grey-zone strings (closure 0, conflicting closure bonds, duplicate maps, odd CX blocks ...) only have to '
               'return a well-formed object or raise ValueError',
               'RDKit is the judge of absolute stereo convention for strings it accepts; non-carbon chirality and allene '
               'stereo (unsupported by RDKit) are not compared with it']

TOKENS = ['C', 'c', 'N', 'n', 'O', 'Cl', '[NH4+]', '[13CH3]', '[C@H]', '[O-]', '(', ')', '1', '2', '%10', '=', '#', ':',
          '-', '/', '\\', '.', '>', ' |^1:0|']


def shards(tier, seed):
    out = [dict(kind='d1', shard=i, n=900 if tier == 'quick' else 8000) for i in range(8)]
    out += [dict(kind='rxn', shard=i, n=400 if tier == 'quick' else 4000) for i in range(3)]
    L = 4 if tier == 'quick' else 5
    parts = 6 if tier == 'quick' else 48
    out += [dict(kind='d2', part=i, parts=parts, L=L) for i in range(parts)]
    out.append(dict(kind='symbols'))
    out += [dict(kind='curated', part=i) for i in range(2)]
    out += [dict(kind='d3', shard=i, n=300 if tier == 'quick' else 4000) for i in range(2)]
    if tier == 'thorough':
        out += [dict(kind='fuzz', shard=i) for i in range(4)]
    return out


def run_shard(shard, tier, seed):
    k = shard['kind']
    if k == 'd1':
        strat = st.fixed_dictionaries({'d1': molgen.mol_specs(max_atoms=14), 'seed': st.integers(0, 2 ** 31),
                                       'raw': st.booleans()})
        return hyp_run(ID, strat, check_case, max_examples=shard['n'], seed=seed * 1000 + shard['shard'])
    if k == 'curated':
        # the curated witnesses are swept completely on every run (drawn cases meet a given witness only now and then): each with
        # six spellings, among them one that starts at a labelled centre and one that starts a later component there
        starts = [None, 'centres', 'centres-late', None, 'centres', 'centres-late']
        return direct_run(ID, [{'d1': {'k': 'smi', 's': s}, 'seed': seed * 7919 + i * 6 + j, 'raw': bool(j == 3), 'start': starts[j]}
                               for i, s in enumerate(molgen.curated()) if i % 2 == shard['part'] for j in range(6)], check_case)
    if k == 'rxn':
        role = st.lists(molgen.mol_specs(max_atoms=8, corpus_w=3, curated_w=3, graph_w=4, sym_w=0), max_size=3)
        strat = st.fixed_dictionaries({'rxn': st.tuples(role, role, role), 'seed': st.integers(0, 2 ** 31)})
        return hyp_run(ID, strat, check_case, max_examples=shard['n'], seed=seed * 1000 + 50 + shard['shard'])
    if k == 'd2':
        cases = []
        idx = 0
        for L in range(1, shard['L'] + 1):
            for seq in itertools.product(range(len(TOKENS)), repeat=L):
                if TOKENS[seq[0]] in (' |^1:0|',):
                    continue
                if idx % shard['parts'] == shard['part']:
                    cases.append({'text': ''.join(TOKENS[i] for i in seq)})
                idx += 1
        return direct_run(ID, cases, check_case)
    if k == 'symbols':
        # every element symbol in every letter case, as bracket atom and (where the grammar has one) as bare atom
        from chython.periodictable import Element
        cases = []
        for z in range(1, 119):
            sym = Element.from_atomic_number(z).__name__
            for v in {sym, sym.lower(), sym.upper(), sym.swapcase()}:
                for t in (f'[{v}]', f'C[{v}+]', f'[{v}H]C', f'C{v}', f'[13{v}]', f'c1cc[{v}]c1'):
                    cases.append({'text': t})
        return direct_run(ID, cases, check_case)
    if k == 'd3':
        strat = st.fixed_dictionaries({'corrupt': st.integers(0, len(molgen.corpus()) - 1), 'op': st.sampled_from('dirt'),
                                       'pos': st.integers(0, 200), 'tok': st.integers(0, len(TOKENS) - 1)})
        return hyp_run(ID, strat, check_case, max_examples=shard['n'], seed=seed * 1000 + 70 + shard['shard'])
    if k == 'fuzz':
        from . import c03_fuzz
        return c03_fuzz.run(shard, seed)
    raise HarnessError(k)


# ---------------------------------------------------------------------------------------------------

def check_case(case, rec):
    if 'd1' in case:
        return check_d1(case, rec)
    if 'rxn' in case:
        return check_rxn(case, rec)
    if 'corrupt' in case:
        text = corrupt(case)
        if text is None:
            return
        return check_text(text, rec, 'd3')
    if case.get('fuzz_target') == 'smarts':
        from chython import smarts
        from ..core import chython_frame
        try:
            smarts(case['text'])
        except ValueError:
            pass
        except Exception as e:
            rec.fail('unrelated-exception', f'smarts({case["text"]!r}): {type(e).__name__}: {e}',
                     sig=f'smarts:{type(e).__name__}@{chython_frame(e.__traceback__)}')
        return
    return check_text(case['text'], rec, 'd2')


def _tokens_of(s):
    import re
    return re.findall(r'\[[^\]]*\]|%\d\d|Cl|Br|\s\|[^|]*\||.', s)


def corrupt(case):
    s = molgen.corpus()[case['corrupt']]
    toks = _tokens_of(s)
    p = case['pos'] % len(toks)
    op = case['op']
    if op == 'd':
        del toks[p]
    elif op == 'i':
        toks.insert(p, TOKENS[case['tok']])
    elif op == 'r':
        toks[p] = TOKENS[case['tok']]
    else:
        if len(toks) < 2:
            return None
        q = (p + 1) % len(toks)
        toks[p], toks[q] = toks[q], toks[p]
    return ''.join(toks)


def nontrivial_text(text):
    return sum(c.isalpha() and c not in 'Hlr' for c in text.split()[0].replace('[NH4+]', 'N')) >= 2 and \
        any(c in text for c in '()123456789[@/\\|>%')


def expected_order(ref, b):
    a, k, o, mk = b
    if o is not None:
        return o
    if mk is not None:
        # a directional mark between two aromatic atoms is a grey zone (chython keeps the aromatic bond)
        return (1, 4) if ref['atoms'][a]['aromatic'] and ref['atoms'][k]['aromatic'] else 1
    return 4 if ref['atoms'][a]['aromatic'] and ref['atoms'][k]['aromatic'] else 1


def well_formed(mol, rec, text):
    bonds = mol._bonds
    for n, nb in bonds.items():
        if n not in mol._atoms:
            rec.fail('well-formed', f'{text!r}: adjacency row for missing atom {n}')
        for k, b in nb.items():
            if k not in mol._atoms or bonds.get(k, {}).get(n) is not b:
                rec.fail('well-formed', f'{text!r}: adjacency not symmetric at {n}-{k}')
    if set(bonds) != set(mol._atoms):
        rec.fail('well-formed', f'{text!r}: atoms without adjacency row')


def compare_raw(refmol, mol, rec, text, radicals=(), offset=0):
    """chython object against the reference reader's graph, atom i of the text <-> i-th atom of the container"""
    nums = list(mol._atoms)
    if len(nums) != len(refmol['atoms']):
        rec.fail('ref-atoms', f'{text!r}: reference reader sees {len(refmol["atoms"])} atoms, chython built {len(nums)}')
        return
    lenient = set((mol.meta or {}).get('chython_implicit_mismatch', {})) | set((mol.meta or {}).get('chython_radicalized_atoms', []))
    for i, (n, ra) in enumerate(zip(nums, refmol['atoms'])):
        a = mol._atoms[n]
        if a.atomic_symbol != ra['symbol'] or (a.isotope or None) != ra['isotope'] or a.charge != ra['charge']:
            rec.fail('ref-atom', f'{text!r}: atom {i} read as {a.atomic_symbol} iso={a.isotope} charge={a.charge}, '
                                 f'text says {ra["symbol"]} iso={ra["isotope"]} charge={ra["charge"]}', sig='attr')
        if ra['map'] and [x['map'] for x in refmol['atoms']].count(ra['map']) == 1 and n != ra['map']:
            rec.fail('ref-atom', f'{text!r}: atom {i} has map {ra["map"]} but number {n}', sig='map')
        want_rad = (i + offset) in radicals
        if want_rad and not a.is_radical:
            rec.fail('ref-atom', f'{text!r}: atom {i} should be a radical (CX block)', sig='radical')
        if a.is_radical and not want_rad and n not in lenient:
            rec.fail('ref-atom', f'{text!r}: atom {i} became a radical without CX mark or report', sig='radical')
        if ra['bracket'] and not ra['aromatic'] and n not in lenient and not want_rad and a.implicit_hydrogens is not None \
                and a.implicit_hydrogens != ra['hcount']:
            rec.fail('ref-atom', f'{text!r}: bracket atom {i} written with H{ra["hcount"]} has {a.implicit_hydrogens} '
                                 f'hydrogens and no mismatch report', sig='hcount')
    want = {}
    for b in refmol['bonds']:
        want[frozenset((nums[b[0]], nums[b[1]]))] = expected_order(refmol, b)
    got = {frozenset((n, k)): b.order for n, k, b in mol.bonds()}
    for k, v in list(want.items()):
        if isinstance(v, tuple) and got.get(k) in v:
            want[k] = got[k]
    if want != got:
        d = {tuple(sorted(k)): (want.get(k), got.get(k)) for k in set(want) | set(got) if want.get(k) != got.get(k)}
        rec.fail('ref-bonds', f'{text!r}: bonds (text, built) differ: {dict(list(d.items())[:4])}')


def check_text(text, rec, stratum):
    """D2 / D3 oracle for an arbitrary string"""
    from chython import smiles, MoleculeContainer, ReactionContainer
    try:
        ref = smiles_ref.parse(text)
        cls = 'valid'
    except RefInvalid as e:
        ref, cls, why = None, e.kind, str(e)
    rec.count(f'{stratum}:{cls}')
    try:
        obj = smiles(text)
    except ValueError as e:
        if cls == 'valid':
            # the reference reader knows syntax only; chython may still reject on chemistry (unknown isotope, two bonds
            # between the same atoms, aromatic ring without Kekule form is NOT checked at reading time...)
            msg = str(e)
            if any(k in msg for k in ('isotope', 'already bonded', 'atom loops', 'charge')):
                rec.count(f'{stratum}:valid-syntax-rejected-on-chemistry')
                return
            rec.fail('valid-rejected', f'{text!r}: reference reader accepts, chython raises {type(e).__name__}: {e}',
                     sig=type(e).__name__)
        return
    except Exception as e:
        from ..core import chython_frame
        rec.fail('unrelated-exception', f'{text!r}: {type(e).__name__}: {e}',
                 sig=f'{type(e).__name__}@{chython_frame(e.__traceback__)}')
        return
    if cls == 'hard':
        rec.fail('invalid-accepted', f'{text!r}: outside the language (reference reader: {why}) but returned {obj}',
                 sig=why.split(' ')[0] + ' ' + ' '.join(why.split(' ')[1:3]))
        return
    if nontrivial_text(text):
        rec.nt(text)
        rec.sample(f'{stratum}:{cls}', text, cap=4)
    mols = [obj] if isinstance(obj, MoleculeContainer) else list(obj.molecules())
    for m in mols:
        well_formed(m, rec, text)
    if cls != 'valid':
        return
    if ref['kind'] == 'molecule':
        if not isinstance(obj, MoleculeContainer):
            rec.fail('kind', f'{text!r}: molecule text gave {type(obj).__name__}')
            return
        compare_raw(ref['molecule'], obj, rec, text, ref['radicals'])
    else:
        if not isinstance(obj, ReactionContainer):
            rec.fail('kind', f'{text!r}: reaction text gave {type(obj).__name__}')
            return
        if ref['fragments']:
            return  # grouping changes molecule boundaries; covered by D1 reactions
        got = (obj.reactants, obj.reagents, obj.products)
        off = 0
        for role, gm in zip(ref['roles'], got):
            if len(role) != len(gm):
                rec.fail('roles', f'{text!r}: role sizes {[len(r) for r in ref["roles"]]} != {[len(g) for g in got]}')
                return
            for rm, m in zip(role, gm):
                compare_raw(rm, m, rec, text, ref['radicals'], off)
                off += len(rm['atoms'])


# ---------------------------------------------------------------------------------------------------
# D1

def rdkit_same(text_a, text_b):
    """True/False/None(not comparable): both strings denote the same molecule incl. stereo according to RDKit"""
    try:
        from rdkit import Chem
    except ImportError:
        return None
    a, b = Chem.MolFromSmiles(text_a), Chem.MolFromSmiles(text_b)
    if a is None or b is None:
        return None
    for mol in (a, b):
        for at in mol.GetAtoms():
            if at.GetAtomicNum() != 6 and at.GetChiralTag() != Chem.ChiralType.CHI_UNSPECIFIED:
                at.SetChiralTag(Chem.ChiralType.CHI_UNSPECIFIED)
    if Chem.MolToSmiles(a) == Chem.MolToSmiles(b):
        return True
    if a.GetNumAtoms() != b.GetNumAtoms():
        return False
    return a.HasSubstructMatch(b, useChirality=True) and b.HasSubstructMatch(a, useChirality=True)


def source_text_clause(src, rec):
    """a molecule given as text (corpus / curated list) is also read by RDKit and converted by the bridge (C20's subject, other code
    than the SMILES reader): the configuration the library reads from the text must be, atom by atom (text order on both sides), the
    one RDKit reads.  This is the only denotation of a source text that does not pass through the reader under test."""
    from chython import smiles
    from ..oracles import wl
    if not src or '|' in src or '>' in src:
        return True
    try:
        from rdkit import Chem, RDLogger
        from chython.utils.rdkit import from_rdkit_molecule
        RDLogger.DisableLog('rdApp.*')
        ps = Chem.SmilesParserParams()
        ps.removeHs = False
        rd = Chem.MolFromSmiles(src, ps)
        if rd is None:
            rec.count('source-text:rdkit-rejects')
            return True
        Chem.Kekulize(rd, clearAromaticFlags=True)
    except Exception:
        rec.count('source-text:rdkit-not-comparable')
        return True
    ok, x0 = rec.guard('d1-read', smiles, src)
    if not ok:
        return False
    if rd.GetNumAtoms() != len(x0) or any(b.order == 8 for *_, b in x0.bonds()):
        rec.count('source-text:not-comparable (atom count / coordinate bonds)')
        return True
    if any(at.GetChiralTag() != Chem.ChiralType.CHI_UNSPECIFIED and at.GetAtomicNum() != 6 for at in rd.GetAtoms()):
        rec.count('source-text:not-comparable (RDKit centre on a hetero atom)')
        return True
    try:
        x0 = x0.copy()
        x0.kekule()
        fr = from_rdkit_molecule(rd)
    except Exception as e:
        rec.count(f'source-text:not-comparable ({type(e).__name__})')
        return True
    if len(fr) != len(x0) or [a.atomic_number for _, a in fr.atoms()] != [a.atomic_number for _, a in x0.atoms()]:
        rec.count('source-text:not-comparable (bridge renumbers)')
        return True
    if any(x0.atom(n).stereo is not None for n in x0.stereogenic_allenes) or \
            any(len(pth) > 2 and len(pth) % 2 == 0 and x0.bond(pth[len(pth) // 2 - 1], pth[len(pth) // 2]).stereo is not None
                for pth in x0.stereogenic_cumulenes):
        rec.count('source-text:not-comparable (allene / cumulene stereo is unknown to RDKit)')
        return True
    # only the labels RDKit reads are compared: axial chirality of alkylidene rings, spiro centres and other elements RDKit does not
    # perceive are the library's own business here (counted); a label RDKit reads must be read by the library with the same sense
    inv = dict(zip(fr, x0))
    th, ct, al = molgen.stereo_labels(fr)
    th0, ct0, al0 = molgen.stereo_labels(x0)
    dd = []
    for n, (env, s) in th.items():
        if inv[n] not in th0:
            dd.append(('tetrahedral-lost', inv[n]))
        elif x0._translate_tetrahedron_sign(inv[n], tuple(inv[k] for k in env)) != s:
            dd.append(('tetrahedral-sign', inv[n]))
    c0 = {frozenset(k) for k in ct0}
    for (n, k), (env, s) in ct.items():
        if frozenset((inv[n], inv[k])) not in c0:
            dd.append(('cis-trans-lost', (inv[n], inv[k])))
        elif x0._translate_cis_trans_sign(inv[n], inv[k], inv[env[0]], inv[env[1]]) != s:
            dd.append(('cis-trans-sign', (inv[n], inv[k])))
    extra = len(th0) - sum(1 for n in th if inv[n] in th0) + len(c0) - sum(1 for (n, k) in ct if frozenset((inv[n], inv[k])) in c0)
    if extra:
        rec.count('source-text:labels RDKit does not perceive (not compared)', extra)
    rec.count('source-text:compared')
    if dd:
        sig = dd[0][0]
        for w in (x0, fr):
            try:
                col, adj = wl.constitution(w)
                if wl.annulene_stereo(w):
                    sig = 'annulene-stereo'
                elif wl.gap_a_ring(w, wl.orbits(col, adj)):
                    sig = 'pseudo-asymmetric-ring'
            except TimeoutError:
                sig = 'pseudo-asymmetric-ring'
        rec.fail('d1-stereo', f'source text {src!r}: read as {str(x0)!r}, RDKit reading through the bridge {str(fr)!r}: {dd[:3]}', sig=sig)
        return False
    return True


def check_d1(case, rec):
    from chython import smiles
    from ..oracles import wl
    try:
        m = molgen.build(case['d1'], normal=not case['raw']) if case['d1']['k'] != 'graph' else molgen.build(case['d1'])
    except molgen.Reject as e:
        rec.count(f'generator-reject:{e}')
        return
    if any(a.implicit_hydrogens is None for _, a in m.atoms()):
        # raw aromatic reading: hydrogens of hetero atoms are unknown until kekule(); such a state cannot be spelled
        try:
            molgen.normalise(m)
        except molgen.Reject as e:
            rec.count(f'generator-reject:{e}')
            return
    if case['d1']['k'] in ('smi', 'corpus') and not source_text_clause(molgen.spec_smiles(case['d1']), rec):
        return
    # atom maps: none / every atom (its own number) / a drawn subset with drawn unique numbers
    mrnd = _random.Random(case['seed'] ^ 0x5bd1e995)
    mode = mrnd.choice(['none', 'none', 'none', 'all', 'partial'])
    maps = None
    if mode == 'all':
        maps = True
    elif mode == 'partial':
        nums = mrnd.sample(range(1, len(m) + 8), len(m))
        maps = {n: k for n, k in zip(m, nums) if mrnd.random() < .5} or None
    style = dict(mapping=maps) if maps else {}
    start = case.get('start') or mrnd.choice([None, None, None, 'centres', 'centres-late'])
    if start:
        style['start'] = start  # labelled centres as first atom of the string / of a later dot-separated component
    r = smiles_ref.write_random(m, case['seed'], style=style or None)
    if r is None:
        rec.count('writer-not-applicable')
        return
    text, order = r
    rec.count(f'd1:maps-{mode}')
    if start:
        rec.count(f'd1:start-{start}')
    rec.count('d1:strings')
    if nontrivial_text(text):
        rec.nt(text)
    # self-check of the reference reader on the writer's output (harness consistency, not a property clause)
    try:
        ref = smiles_ref.parse(text)
    except RefInvalid as e:
        raise HarnessError(f'reference reader rejects reference writer output {text!r}: {e}')
    ok, x = rec.guard('d1-read', smiles, text)
    if not ok:
        return
    compare_raw(ref['molecule'], x, rec, text, ref['radicals'])
    if len(x) != len(m):
        rec.fail('d1-atoms', f'{text!r}: {len(m)} atoms written, {len(x)} read')
        return
    mp = dict(zip(order, list(x)))
    # structure level: both in normal state
    a, b = m.copy(), x
    try:
        molgen.normalise(a)
    except molgen.Reject:
        rec.count('d1:source-not-normalisable')
        return
    kek_text = None
    try:
        bk = b.copy()
        bk.kekule()
        kek_text = str(bk)  # reading before thiele(): no tautomer normalisation, used for the RDKit comparison
        molgen.normalise(b)
    except Exception as e:
        from ..oracles import mcb
        try:
            uniq = mcb.analyse(mcb.mol_adj(a))['unique']
        except OverflowError:
            uniq = False
        rec.fail('d1-normalise', f'{str(a)!r} spelled {text!r}: read-back cannot be normalised: {type(e).__name__}: {e}',
                 sig='aromatic-P-ambiguity' if wl.aromatic_p_ambiguity(a) else
                 ('ring-system-without-unique-mcb' if not uniq else type(e).__name__))
        return
    if molgen.map_snapshot(molgen.snapshot(a), mp) != molgen.snapshot(b):
        want, got = molgen.map_snapshot(molgen.snapshot(a), mp), molgen.snapshot(b)
        d = [(n, want[n], got.get(n)) for n in want if want[n] != got.get(n)][:3]
        sig = 'aromatic-P-ambiguity' if wl.aromatic_p_ambiguity(a) else ''
        if sum(bb.order == 4 for *_, bb in a.bonds()) != sum(bb.order == 4 for *_, bb in b.bonds()):
            from ..oracles import mcb
            try:
                if not mcb.analyse(mcb.mol_adj(a))['unique']:
                    sig = 'ring-system-without-unique-mcb'
            except OverflowError:
                sig = 'ring-system-without-unique-mcb'
        rec.fail('d1-atomwise', f'{str(a)!r} spelled {text!r} read as {str(b)!r}: {d}', sig=sig)
        return
    d = molgen.compare_stereo(a, b, mp)
    if d:
        sig = d[0][0]
        try:
            col, adj = wl.constitution(a)
            if wl.annulene_stereo(a):
                sig = 'annulene-stereo'
            else:
                orb = wl.orbits(col, adj)
                if wl.gap_a_ring(a, orb):
                    sig = 'pseudo-asymmetric-ring'
                elif wl.gap_a(a, orb):
                    sig = 'pseudo-asymmetric-acyclic'
        except TimeoutError:
            sig = 'pseudo-asymmetric-ring'
        rec.fail('d1-stereo', f'{str(a)!r} spelled {text!r} read as {str(b)!r}: {d[:3]}', sig=sig)
        return
    # absolute convention: RDKit reads the text and chython's canonical output as the same molecule
    # aromatic bracket atoms: kekule() documents that it settles their hydrogens itself ("pyrrole cation or protonated pyridine"
    # for [n+] with two neighbours); a string whose written count it overrides is not one both toolkits read alike
    repaired = any(ra['bracket'] and ra['aromatic'] and bk._atoms[n].implicit_hydrogens != ra['hcount']
                   for n, ra in zip(bk._atoms, ref['molecule']['atoms']))
    if repaired:
        rec.count('d1:rdkit-not-comparable (kekule() overrides the written hydrogen count of an aromatic bracket atom)')
    elif not any(bb.order == 8 for *_, bb in b.bonds()) and not any(b.atom(n).stereo is not None for n in b.stereogenic_allenes):
        same = rdkit_same(text, kek_text)
        if same is None:
            rec.count('d1:rdkit-not-comparable')
        elif same:
            rec.count('d1:rdkit-agrees')
        else:
            sig = 'rdkit'
            try:
                col, adj = wl.constitution(a)
                if wl.gap_a(a, wl.orbits(col, adj)) or wl.annulene_stereo(a):
                    sig = 'rdkit-pseudo-asymmetric'
            except TimeoutError:
                sig = 'rdkit-pseudo-asymmetric'
            if sig == 'rdkit-pseudo-asymmetric':
                rec.count('d1:rdkit-disagrees-in-pseudo-asymmetric-domain (RDKit canonicalisation not invariant there)')
            else:
                rec.fail('d1-rdkit', f'{text!r} and chython reading {str(b)!r} are different molecules for RDKit', sig=sig)
    rec.sample('d1', text, cap=8)


def check_rxn(case, rec):
    from chython import smiles, ReactionContainer
    roles_txt, roles_mol = [], []
    rnd = _random.Random(case['seed'])
    n_atoms = 0
    radicals = []
    frag_groups = []
    mol_index = 0
    # atom maps: none / all / a drawn subset, numbers unique over the whole reaction and dense (so that the numbers the reader
    # gives to unmapped atoms run into the mapped ones unless it starts above all of them)
    map_mode = rnd.choice(['none', 'none', 'all', 'partial', 'partial'])
    pool = (k for lo in range(1, 2000, 40) for k in rnd.sample(range(lo, lo + 40), 40))
    all_maps = []  # per role, per molecule: list (written order) of map or None
    for role in case['rxn']:
        txts, mols = [], []
        all_maps.append([])
        for spec in role:
            try:
                m = molgen.build(spec)
            except molgen.Reject as e:
                rec.count(f'generator-reject:{e}')
                continue
            maps = None
            if map_mode != 'none' and len(m) < 40:
                maps = {n: next(pool) for n in m if map_mode == 'all' or rnd.random() < .5}
            r = smiles_ref.write_random(m, rnd.randrange(2 ** 31), style=dict(big_closures=False, mapping=maps or False))
            if r is None:
                continue
            t, order = r
            all_maps[-1].append([maps.get(n) if maps else None for n in order])
            body = t.split(' |')[0]
            radicals += [n_atoms + i for i, n in enumerate(order) if m.atom(n).is_radical]
            n_atoms += len(order)
            ncomp = body.count('.') + 1
            if ncomp > 1:
                frag_groups.append(list(range(mol_index, mol_index + ncomp)))
            mol_index += ncomp
            txts.append(body)
            mols.append((m, order))
        roles_txt.append('.'.join(txts))
        roles_mol.append(mols)
    text = '>'.join(roles_txt)
    if text == '>>':
        rec.count('rxn:empty')
        return
    cx = []
    if frag_groups:
        cx.append('f:' + ','.join('.'.join(map(str, g)) for g in frag_groups))
    if radicals:
        cx.append('^1:' + ','.join(map(str, radicals)))
    if cx:
        text += ' |' + ','.join(cx) + '|'
    rec.count('rxn:strings')
    rec.nt(text)
    ok, r = rec.guard('rxn-read', smiles, text)
    if not ok:
        return
    if not isinstance(r, ReactionContainer):
        rec.fail('rxn-kind', f'{text!r} read as {type(r).__name__}')
        return
    got = (r.reactants, r.reagents, r.products)
    if [len(x) for x in got] != [len(x) for x in roles_mol]:
        rec.fail('rxn-roles', f'{text!r}: role sizes {[len(x) for x in roles_mol]} written, {[len(x) for x in got]} read',
                 sig='empty-role' if any(not x for x in roles_mol) else '')
        return
    rec.count(f'rxn:maps-{map_mode}')
    numbers = [n for gm in got for x in gm for n in x]
    if len(set(numbers)) != len(numbers) and map_mode != 'none':
        rec.fail('rxn-maps', f'{text!r}: atom numbers are not unique over the reaction although every written map is')
        return
    for gm, wm, mm in zip(got, roles_mol, all_maps):
        for x, (m, order), ml in zip(gm, wm, mm):
            if len(x) == len(m):
                for n, k in zip(x, ml):
                    if k is not None and n != k:
                        rec.fail('rxn-maps', f'{text!r}: atom written with map {k} got number {n}', sig='moved')
                        return
    for gm, wm in zip(got, roles_mol):
        for x, (m, order) in zip(gm, wm):
            if len(x) != len(m):
                rec.fail('rxn-atoms', f'{text!r}: molecule {str(m)!r} read with {len(x)} atoms')
                return
            mp = dict(zip(order, list(x)))
            a, b = m.copy(), x.copy()
            try:
                molgen.normalise(a)
            except molgen.Reject:
                continue
            from ..oracles import wl
            try:
                molgen.normalise(b)
            except Exception as e:
                from ..oracles import mcb
                try:
                    uniq = mcb.analyse(mcb.mol_adj(a))['unique']
                except OverflowError:
                    uniq = False
                rec.fail('rxn-normalise', f'{text!r}: {str(a)!r} cannot be normalised after reading: {type(e).__name__}: {e}',
                         sig='aromatic-P-ambiguity' if wl.aromatic_p_ambiguity(a) else
                         ('ring-system-without-unique-mcb' if not uniq else type(e).__name__))
                return
            if molgen.map_snapshot(molgen.snapshot(a), mp) != molgen.snapshot(b):
                sig = 'aromatic-P-ambiguity' if wl.aromatic_p_ambiguity(a) else ''
                if not sig and sum(bb.order == 4 for *_, bb in a.bonds()) != sum(bb.order == 4 for *_, bb in b.bonds()):
                    from ..oracles import mcb
                    try:
                        if not mcb.analyse(mcb.mol_adj(a))['unique']:
                            sig = 'ring-system-without-unique-mcb'
                    except OverflowError:
                        sig = 'ring-system-without-unique-mcb'
                rec.fail('rxn-atomwise', f'{text!r}: {str(a)!r} read as {str(b)!r}', sig=sig)
                return
            d = molgen.compare_stereo(a, b, mp)
            if d:
                rec.count('rxn:stereo-diff (judged in D1)')
    rec.sample('rxn', text, cap=8)

"""
C18 - periodic table data are complete and mutually consistent (finite, enumerated completely).  DESIGN 2/C18.
"""
import os
import re
import struct

from ..core import direct_run, HarnessError
from ..boot import REPO

ID = 'C18'
EXHAUSTIVE = {'quick': True, 'thorough': True}
RULE = ('exhaustive: 118 elements x (every tabulated isotope + unspecified) x charge -4..+4 x radical flag; each triple '
        'is built as an atom, packed/unpacked (hydrogens 0..6/None), compiled for the bit-mask matcher and decoded '
        'ten different first lookups, each in a fresh interpreter, followed by all 354 number/symbol lookups; query-side matcher words decoded and tested pairwise against molecule-side words. with an independent bit-layout reader; non-trivial = every (element, isotope, charge, radical) case; '
        'distinct by that tuple'
        '; also: compiled matcher: every La..Mc element as neighbour atom against the query of every other element.'
        '; also: every tabulated isotope is also packed on a labelled tetrahedral / allene centre where the library accepts a label.')
ASSUMPTIONS = ['standard symbol table is the literal IUPAC list embedded in this check',
               'pack and matcher code are executed through the pyx transliterator (DESIGN 0.1), not compiled C',
               'atomic mass plausibility: |mass - mass number| < 0.6 u (data sanity bound chosen by the harness)']

SYMBOLS = ('H He Li Be B C N O F Ne Na Mg Al Si P S Cl Ar K Ca Sc Ti V Cr Mn Fe Co Ni Cu Zn Ga Ge As Se Br Kr Rb Sr '
           'Y Zr Nb Mo Tc Ru Rh Pd Ag Cd In Sn Sb Te I Xe Cs Ba La Ce Pr Nd Pm Sm Eu Gd Tb Dy Ho Er Tm Yb Lu Hf Ta W '
           'Re Os Ir Pt Au Hg Tl Pb Bi Po At Rn Fr Ra Ac Th Pa U Np Pu Am Cm Bk Cf Es Fm Md No Lr Rf Db Sg Bh Hs Mt '
           'Ds Rg Cn Nh Fl Mc Lv Ts Og').split()
assert len(SYMBOLS) == 118


def shards(tier, seed):
    return [list(range(z, min(z + 8, 119))) for z in range(1, 119, 8)] + [['cold', k] for k in range(len(COLD_FIRST))]


# the lookup tables are built lazily on first use and shared by all element classes: whichever public call comes first in a fresh
# interpreter, number <-> symbol <-> class lookups must afterwards work for all 118 elements and be mutually inverse
COLD_FIRST = ["Element.from_atomic_number(6)", "C.from_atomic_number(8)", "smiles('CCO').atom(1).from_atomic_number(8)",
              "Element.from_symbol('Fe')", "Og.from_symbol('H')", "C().from_symbol('N')", "QueryElement.from_atomic_number(7)",
              "QueryElement.from_symbol('Cl')", "smarts('[C,N]')", "DynamicElement.from_atomic_number(6)"]
COLD_SCRIPT = '''
import sys, json
sys.path.insert(0, %r)
from vf.boot import boot
boot()
from chython import smiles, smarts
from chython.periodictable import Element, QueryElement, DynamicElement, C, Og
out = {'first': None, 'bad': []}
try:
    %s
except Exception as e:
    out['first'] = type(e).__name__ + ': ' + str(e)
SYM = %r
for cls in (Element, QueryElement, DynamicElement):
    for z, s in enumerate(SYM, 1):
        try:
            a, b = cls.from_atomic_number(z), cls.from_symbol(s)
            if a is not b or a.__name__.replace('Query', '').replace('Dynamic', '') != s or a.atomic_number.fget(None) != z:
                out['bad'].append([cls.__name__, z, s, a.__name__, b.__name__])
        except Exception as e:
            out['bad'].append([cls.__name__, z, s, type(e).__name__, str(e)[:60]])
print(json.dumps(out))
'''


def check_cold(k, rec):
    import json
    import subprocess
    import sys
    from ..boot import VERIF
    first = COLD_FIRST[k]
    p = subprocess.run([sys.executable, '-c', COLD_SCRIPT % (VERIF, first, list(SYMBOLS))], capture_output=True, text=True, timeout=300,
                       env=dict(os.environ, PYTHONHASHSEED='0'))
    if p.returncode:
        raise HarnessError(f'cold-lookup worker failed: {p.stderr[-400:]}')
    out = json.loads(p.stdout.strip().splitlines()[-1])
    rec.count('cold-lookup-orders')
    rec.nt(('cold', first))
    if out['first']:
        rec.fail('lookup', f'fresh interpreter, first call {first}: raised {out["first"]}', sig='first-call')
    if out['bad']:
        rec.fail('lookup', f'fresh interpreter, first call {first}: {len(out["bad"])} of 354 number/symbol lookups wrong afterwards, e.g. '
                           f'{out["bad"][:3]}', sig='after-first-call')


def _pyx_table(path, name):
    src = open(f'{REPO}/{path}').read()
    m = re.search(name + r'\[:\]\s*=\s*\[([^\]]*)\]', src)
    if not m:
        raise HarnessError(f'cannot locate {name} in {path}')
    return [int(x) for x in m.group(1).replace('\n', ' ').split(',')]


def check_case(z, rec):
    if isinstance(z, list) or z == 'cold':
        return
    from chython import MoleculeContainer
    from chython.periodictable import Element
    import chython.periodictable as pt
    from chython.containers import unpack as any_unpack

    sym = SYMBOLS[z - 1]
    # ---- lookups
    ok, cls_n = rec.guard('lookup-number', Element.from_atomic_number, z)
    ok2, cls_s = rec.guard('lookup-symbol', Element.from_symbol, sym)
    if not (ok and ok2):
        return
    if cls_n is not cls_s:
        rec.fail('lookup-inverse', f'from_atomic_number({z}) is {cls_n.__name__}, from_symbol({sym!r}) is {cls_s.__name__}',
                 sig=sym)
        return
    a0 = cls_n()
    if a0.atomic_number != z or a0.atomic_symbol != sym:
        rec.fail('lookup-standard', f'{sym}/{z}: atom reports {a0.atomic_symbol}/{a0.atomic_number}', sig=sym)
    if getattr(pt, sym, None) is not cls_n:
        rec.fail('lookup-module', f'chython.periodictable.{sym} is not the class of number {z}', sig=sym)

    # ---- isotope tables
    dist = a0.isotopes_distribution
    mass = a0.isotopes_masses
    if set(dist) != set(mass):
        rec.fail('isotope-keys', f'{sym}: abundance keys {sorted(dist)} != mass keys {sorted(mass)}', sig=sym)
    ref = a0.mdl_isotope
    if ref not in dist or ref not in mass:
        rec.fail('reference-isotope', f'{sym}: reference isotope {ref} not tabulated {sorted(dist)}', sig=sym)
    ok, m_nat = rec.guard('atomic-mass', lambda: cls_n().atomic_mass)
    if ok and not (isinstance(m_nat, float) and m_nat == m_nat and 0.9 < m_nat < 310):
        rec.fail('atomic-mass', f'{sym}: natural atomic mass {m_nat!r}', sig=sym)
    if ok and dist and sum(dist.values()) > 0.5:
        lo, hi = min(k for k, v in dist.items() if v > 0), max(k for k, v in dist.items() if v > 0)
        if not lo - 0.6 < m_nat < hi + 0.6:
            rec.fail('atomic-mass', f'{sym}: natural mass {m_nat} outside isotope range {lo}..{hi}', sig=sym)

    # ---- valence tables compile
    rec.guard('valence-compile', lambda: (a0._compiled_valence_rules, a0._compiled_saturation_rules,
                                          a0._compiled_charge_radical), )
    if isinstance(getattr(a0, '_compiled_valence_rules', None), dict):
        for key, rules in a0._compiled_valence_rules.items():
            c, r, v = key
            if not (-4 <= c <= 4 and isinstance(r, bool) and 0 <= v <= 16 and rules):
                rec.fail('valence-compile', f'{sym}: malformed compiled key {key}', sig=sym)

    # ---- query / dynamic variants
    q = getattr(pt, f'Query{sym}', None)
    d = getattr(pt, f'Dynamic{sym}', None)
    if q is None or d is None:
        rec.fail('variants', f'{sym}: Query/Dynamic variant missing', sig=sym)
    else:
        ok, qa = rec.guard('variants', q)
        if ok and (qa.atomic_number != z or qa.mdl_isotope != ref or qa.atomic_symbol != sym):
            rec.fail('variants', f'Query{sym}: number {qa.atomic_number} mdl {qa.mdl_isotope}', sig=sym)
        ok, da = rec.guard('variants', lambda: pt.DynamicElement.from_atom(cls_n()))
        if ok and (da.atomic_number != z or type(da) is not d):
            rec.fail('variants', f'Dynamic{sym}: number {da.atomic_number} class {type(da).__name__}', sig=sym)
        ok, qa2 = rec.guard('variants', lambda: pt.QueryElement.from_atom(cls_n()))
        if ok and (qa2.atomic_number != z or type(qa2) is not q):
            rec.fail('variants', f'QueryElement.from_atom({sym}) gives {type(qa2).__name__}', sig=sym)

    # ---- pyx isotope tables
    for path in ('chython/containers/_pack_v2.pyx', 'chython/containers/_unpack_v0v2.pyx'):
        t = _pyx_table(path, 'common_isotopes')
        if len(t) != 119 or t[z] != ref - 16:
            rec.fail('pyx-common-isotopes', f'{path}: common_isotopes[{z}]={t[z] if len(t) > z else None} '
                                            f'but reference isotope {ref} - 16 = {ref - 16}', sig=sym)

    # ---- out-of-range values must raise
    for bad in (dict(charge=5), dict(charge=-5)):
        try:
            cls_n(**bad)
        except ValueError:
            pass
        except Exception as e:
            rec.fail('range-reject', f'{sym} {bad}: {type(e).__name__} instead of ValueError', sig=sym)
        else:
            rec.fail('range-reject', f'{sym} {bad} accepted', sig=sym)
    untab = next(i for i in range(1, 400) if i not in dist)
    try:
        cls_n(untab)
    except ValueError:
        pass
    except Exception as e:
        rec.fail('range-reject', f'{sym} isotope {untab}: {type(e).__name__} instead of ValueError', sig=sym)
    else:
        rec.fail('range-reject', f'{sym} untabulated isotope {untab} accepted', sig=sym)

    # ---- the isotope shares its bytes of the pack atom block with the stereo marks: every tabulated isotope must also be
    # representable on an atom that carries a label (attempted for every element; the library accepts labels on carbon only)
    for iso in [None] + sorted(dist):
        for shape in ('tetrahedron', 'allene'):
            mol = MoleculeContainer()
            try:
                c = mol.add_atom(cls_n(iso), 11)
                if shape == 'tetrahedron':
                    ns = [mol.add_atom(s) for s in ('F', 'Cl', 'Br', 'I')]
                    for x in ns:
                        mol.add_bond(c, x, 1)
                else:
                    l, r = mol.add_atom('C'), mol.add_atom('C')
                    mol.add_bond(c, l, 2)
                    mol.add_bond(c, r, 2)
                    ns = [mol.add_atom(s) for s in ('F', 'Cl', 'Br', 'I')]
                    for x, y in zip(ns, (l, l, r, r)):
                        mol.add_bond(x, y, 1)
                    ns = [ns[0], ns[2]]
                if mol.check_valence():
                    raise ValueError('valence')
            except Exception:
                rec.count(f'labelled-centre:{shape} not constructible for the element')
                continue
            for mark in (True, False):
                w = mol.copy()
                try:
                    w.add_atom_stereo(c, ns, mark)
                except Exception:
                    pass
                if w.atom(c).stereo is None:
                    rec.count(f'labelled-centre:{shape} label refused by the library (element is not a stereocentre)')
                    break
                rec.count('labelled-centre:packed')
                ok, back = rec.guard('pack', lambda: any_unpack(w.pack(compressed=False), compressed=False))
                if ok:
                    b = back.atom(c) if back.has_atom(c) else None
                    if b is None or (b.atomic_number, b.isotope, b.stereo) != (z, iso, w.atom(c).stereo) or back != w:
                        rec.fail('pack-roundtrip', f'{sym} iso={iso} as labelled {shape} centre ({str(w)!r}) -> '
                                                   f'{None if b is None else (b.atomic_symbol, b.isotope, b.stereo)} ({str(back)!r})',
                                 sig=f'{sym}:labelled')

    # ---- every (isotope, charge, radical): construct, mass, pack, matcher bits
    seen_bits = {}
    mol_words, q_words = {}, {}
    hs = [0, 1, 2, 3, 4, 5, 6, None]
    k = 0
    for iso in [None] + sorted(dist):
        if iso is not None:
            ok, am = rec.guard('atomic-mass', lambda: cls_n(iso).atomic_mass, )
            if ok and not (isinstance(am, float) and abs(am - iso) < 0.6):
                rec.fail('atomic-mass', f'{sym}-{iso}: isotope mass {am!r}', sig=f'{sym}{iso}')
            off_pack = iso - (ref - 16)
            if not 1 <= off_pack <= 31:
                rec.fail('pack-isotope-range', f'{sym}-{iso}: pack offset {off_pack} outside 1..31', sig=f'{sym}{iso}')
            if not -8 <= iso - ref <= 8:
                rec.fail('matcher-isotope-range', f'{sym}-{iso}: matcher offset {iso - ref} outside -8..+8',
                         sig=f'{sym}{iso}')
        for charge in range(-4, 5):
            for rad in (False, True):
                rec.count('triples')
                rec.nt((z, iso, charge, rad))
                ok, atom = rec.guard('construct', cls_n, iso, charge=charge, is_radical=rad)
                if not ok:
                    continue
                mol = MoleculeContainer()
                ok, n = rec.guard('construct', mol.add_atom, atom, 7 + (k % 4000))
                if not ok:
                    continue
                h = hs[k % 8]
                k += 1
                atom._implicit_hydrogens = h
                # pack round trip
                ok, data = rec.guard('pack', mol.pack, compressed=False)
                if ok:
                    ok, back = rec.guard('unpack', any_unpack, data, compressed=False)
                    if ok:
                        b = back.atom(n) if back.has_atom(n) else None
                        if b is None or (b.atomic_number, b.isotope, b.charge, b.is_radical, b.implicit_hydrogens) != \
                                (z, iso, charge, rad, h) or type(b) is not cls_n:
                            rec.fail('pack-roundtrip',
                                     f'{sym} iso={iso} charge={charge} rad={rad} h={h} -> '
                                     f'{None if b is None else (type(b).__name__, b.isotope, b.charge, b.is_radical, b.implicit_hydrogens)}',
                                     sig=f'{sym}')
                # matcher bits (implicit hydrogens field only holds 0..4)
                atom._implicit_hydrogens = h if h is not None and h <= 4 else 0
                mol.flush_cache()
                mol.calc_labels()
                ok, buf = rec.guard('matcher-compile', lambda: mol._cython_compiled_structure)
                if ok:
                    cnt, = struct.unpack_from('<I', buf, 0)
                    b1, b2, b3, b4, fr, to, num = struct.unpack_from('<QQQQIII', buf, 4)
                    dec = _decode_bits(b1, b2, b3)
                    want = (z if z < 116 else 116, None if iso is None else iso - ref, charge, rad,
                            atom._implicit_hydrogens, 0, 0, 1)
                    if cnt != 1 or num != n or dec != want or len(buf) != 4 + 44:
                        rec.fail('matcher-bits', f'{sym} iso={iso} charge={charge} rad={rad}: decoded {dec} want {want}',
                                 sig=sym)
                    key = (b1, b2, b3 & ~(0x1f << 30))
                    if key in seen_bits and seen_bits[key] != (iso, charge, rad):
                        rec.fail('matcher-bits-collide', f'{sym}: {(iso, charge, rad)} and {seen_bits[key]} share bits',
                                 sig=sym)
                    seen_bits[key] = (iso, charge, rad)
                    mol_words[(iso, charge, rad)] = (b1, b2, b3, b4)
                # query side: the exact query atom of this state, every other field unconstrained
                from chython import QueryContainer
                from chython.periodictable import QueryElement
                q = QueryContainer('layout')
                ok, _ = rec.guard('query-compile', lambda: q.add_atom(QueryElement.from_atomic_number(z)(iso, charge=charge, is_radical=rad), 1))
                if ok:
                    ok, comps = rec.guard('query-compile', lambda: q._cython_compiled_query)
                if ok:
                    v1, v2, v3, v4 = struct.unpack_from('<QQQQ', comps[0], 4)
                    q_words[(iso, charge, rad)] = (v1, v2, v3, v4)
                    zz = z if z < 116 else 116
                    want1 = (1 << (57 - zz)) if zz <= 56 else 1
                    want2 = (0 if zz <= 56 else 1 << (120 - zz)) | 0xf
                    want3 = 0x7fff | (0x7fff << 15) | (0x1f << 30) | (1 << (charge + 39)) | (1 << (45 if rad else 44)) | \
                        ((1 << (iso - ref + 54)) if iso is not None else (0x3ffff << 46))
                    if (v1 & 0x01ffffffffffffff, v2, v3, v4) != (want1, want2, want3, 0xffffffffffffffff):
                        rec.fail('query-bits', f'{sym} iso={iso} charge={charge} rad={rad}: query words '
                                               f'{v1 & 0x01ffffffffffffff:#x} {v2:#x} {v3:#x} {v4:#x}, layout gives {want1:#x} {want2:#x} '
                                               f'{want3:#x} {0xffffffffffffffff:#x}', sig=sym)
    # the matcher's test is "query word & molecule word == molecule word": decide every (query state, molecule state) pair of this
    # element with it and compare with the meaning of the states
    for (qi, qc, qr), qw in q_words.items():
        for (mi, mc, mr), mw in mol_words.items():
            got = all(a & b == b for a, b in zip((qw[0] & 0x01ffffffffffffff, qw[1], qw[2], qw[3]),
                                                 (mw[0] & 0x01ffffffffffffff, mw[1], mw[2], mw[3])))
            want = qc == mc and qr == mr and (qi is None or qi == mi)
            if got != want:
                rec.fail('layout-pairs', f'{sym}: query (iso={qi}, charge={qc}, radical={qr}) vs atom (iso={mi}, charge={mc}, radical={mr}): '
                                         f'bit test says {"match" if got else "no match"}', sig=sym)
                break
        else:
            continue
        break
    # the element bit through the matcher itself, with the element as first and as second query atom (the two positions are
    # tested by different code in the compiled matcher): Cl-X matches Cl-Y exactly when X is Y
    if z <= 115:
        from chython import QueryContainer
        from chython.periodictable import QueryElement
        for y in dict.fromkeys([z, z % 115 + 1, (z + 17) % 115 + 1, 78, 79, 57, 92, 26, 6]):
            ysym = SYMBOLS[y - 1]
            mol2 = MoleculeContainer()
            mol2.add_atom('Cl', 1)
            mol2.add_atom(Element.from_atomic_number(y)(), 2)
            mol2.add_bond(1, 2, 1)
            for order in ((1, 2), (2, 1)):
                q2 = QueryContainer('pair')
                for k2 in order:
                    q2.add_atom(QueryElement.from_symbol('Cl')() if k2 == 1 else QueryElement.from_atomic_number(z)(), k2)
                q2.add_bond(1, 2, 1)
                ok, hits = rec.guard('matcher-pair', lambda: list(q2.get_mapping(mol2)))
                if ok and bool(hits) != (y == z):
                    rec.fail('matcher-element', f'query Cl-[{sym}] (atoms added in order {order}) on Cl[{ysym}]: '
                                                f'{"matched" if hits else "not matched"}', sig=sym)
                    break
        rec.count('matcher-pairs')
    rec.count('layout-pairs', len(q_words) * len(mol_words))
    rec.sample('element', dict(symbol=sym, number=z, isotopes=sorted(dist), reference=ref))


def _one(v, lo, n):
    """position of the single set bit of v inside field [lo, lo+n) or None if not exactly one"""
    f = (v >> lo) & ((1 << n) - 1)
    if f == 0 or f & (f - 1):
        return None
    return f.bit_length() - 1


def _decode_bits(b1, b2, b3):
    """independent reader of the documented matcher layout -> (Z, iso offset, charge, radical, H, nbrs, hetero, hyb)"""
    # long I: bits 57-an for H..Ba (an 1..56 -> bit 56..1), bit 0 transfer
    if b1 & 1:
        p = _one(b2, 4, 60)
        z = None if p is None else 120 - (p + 4)
    else:
        p = _one(b1, 1, 56)
        z = None if p is None else 57 - (p + 1)
    hyb_p = _one(b2, 0, 4)
    iso_p = _one(b3, 46, 18)
    iso = None if iso_p is None else (None if iso_p == 17 else iso_p - 8)
    if iso_p is None:
        iso = 'bad'
    rad_p = _one(b3, 44, 2)
    ch_p = _one(b3, 35, 9)
    h_p = _one(b3, 30, 5)
    nb_p = _one(b3, 15, 15)
    he_p = _one(b3, 0, 15)
    return (z, iso, None if ch_p is None else ch_p - 4, None if rad_p is None else bool(rad_p), h_p, nb_p, he_p,
            None if hyb_p is None else hyb_p + 1)


def run_shard(shard, tier, seed):
    if shard and shard[0] == 'cold':
        return direct_run(ID, [shard[1]], check_cold)
    return direct_run(ID, shard, check_case)

"""
C19 - results are identical across processes, hash seeds and repeated calls.  DESIGN 2/C19.
"""
import json
import os
import subprocess
import sys
import tempfile

from hypothesis import strategies as st

from .. import molgen
from ..boot import VERIF, REPO
from ..core import hyp_run, Recorder, HarnessError
from .c19_worker import KEYS as _KEYS, MUTATORS
KEYS = _KEYS + ['op:' + o for o in MUTATORS] + ['rxn:member', 'txn:abort', 'search:state']

ID = 'C19'
RULE = ('configuration sweep: a drawn sample of molecule specs (corpus, curated, literals, constructive, symmetric) is evaluated '
        'in fresh worker interpreters started with PYTHONHASHSEED in {0, 1, 4294967295, 3 seed-derived values}; every worker '
        'computes canonical string, atom orderings, ring set, fingerprints, ordered match lists of 12 SMARTS, canonicalize() '
        'result, pack bytes, components and mapped SMILES four ways (uncached, cached, on a copy, on a second fresh object in the '
        'normalisations on cold and warmed objects; a molecule\'s values after serving as a reaction member and after a rejected transaction that read the edited state. opposite order); all records must be equal within and across workers. non-trivial = molecule has Morgan ties or >= 2 '
        'rings; distinct by canonical string'
        '; also: state after_scoped_search: values re-read after a multi-component search with a searching scope.'
        '; also: a fixed list of complex ions and salts with every charge -4..+4 is always swept.')
ASSUMPTIONS = ['hash(molecule) is excluded: it hashes a string and legitimately varies with the hash seed',
               'only dependence observable within 6 hash seeds on this platform is detectable',
               'workers parse the same SMARTS in the same order (masked-atom numbering uses a global counter by design)']


# every charge value -4..+4 on an atom whose invariant takes part in tie-breaking (complex anions with their counter ions, nitride /
# carbide / oxide salts); several are outside the valence tables - a deterministic error is a deterministic result
CHARGED = ['N#C[Fe-2](C#N)(C#N)(C#N)(C#N)N=O', 'Cl[Pt-2](Cl)(Cl)(Cl)(Cl)Cl.[K+].[K+]', '[N-3].[Al+3]', '[C-4].[Si+4]', '[P-3].[Ga+3]',
           'N#C[Fe-4](C#N)(C#N)(C#N)(C#N)C#N.[K+].[K+].[K+].[K+]', 'N#C[Fe-3](C#N)(C#N)(C#N)(C#N)C#N.[K+].[K+].[K+]',
           'F[Al-3](F)(F)(F)(F)F.[Na+].[Na+].[Na+]', '[O-2].[Zr+4].[O-2]', 'Cl[Sn-2](Cl)(Cl)(Cl)(Cl)Cl.[NH4+].[NH4+]',
           'C[N+](C)(C)C.[O-][Cl+3]([O-])([O-])[O-]', '[O-2].[O-].[K+].[K+].[K+]', '[Mn+2].[O-2].[Mn+3].[O-2].[Mn+3].[O-2].[O-2]',
           '[Ti-2](C)(C)(C)(C)(C)C.[Li+].[Li+]', '[Pd-2](Cl)(Cl)(Cl)Cl.[Na+].[Na+]']


def shards(tier, seed):
    return [dict(kind='all', n=260 if tier == 'quick' else 4200)]


def run_shard(shard, tier, seed):
    specs = []

    def collect(case, rec):
        specs.append(case)
    strat = molgen.mol_specs(max_atoms=14, corpus_w=6, curated_w=3, graph_w=4, literal_w=1, sym_w=3)
    hyp_run(ID, strat, collect, max_examples=shard['n'], seed=seed * 1000 + 1)
    specs.extend({'k': 'smi', 's': s} for s in molgen.curated())  # the curated list is always swept completely
    specs.extend({'k': 'smi', 's': s} for s in CHARGED)
    rec = Recorder(ID)
    rec.collect = True
    hs = [0, 1, 4294967295] + [(seed * 7919 + k * 104729) % 4294967295 for k in (1, 2, 3)]
    with tempfile.TemporaryDirectory(prefix='vf_c19_') as tmp:
        sp = os.path.join(tmp, 'specs.json')
        json.dump(specs, open(sp, 'w'))
        procs = []
        for h in hs:
            out = os.path.join(tmp, f'out_{h}.jsonl')
            env = dict(os.environ, PYTHONHASHSEED=str(h), VERIF_REPO=REPO, PYTHONPATH=VERIF)
            procs.append((h, out, subprocess.Popen([sys.executable, '-m', 'vf.checks.c19_worker', sp, out, VERIF], env=env, cwd=VERIF,
                                                   stdout=subprocess.PIPE, stderr=subprocess.PIPE, text=True)))
        records = {}
        for h, out, p in procs:
            _, err = p.communicate(timeout=3000)
            if p.returncode:
                raise HarnessError(f'worker with PYTHONHASHSEED={h} failed: {err[-800:]}')
            records[h] = [json.loads(line) for line in open(out)]
    base = records[hs[0]]
    for i, r0 in enumerate(base):
        rec.evaluations += 1
        if r0.get('reject'):
            rec.count('generator-reject')
            continue
        rec.current_case = {'spec': specs[i]}
        if r0['ties'] or r0['rings'] >= 2:
            rec.nt(r0['s'])
        for h in hs:
            r = records[h][i]
            if r.get('inconsistent'):
                rec.fail('within-process', f'{r["s"]!r} (PYTHONHASHSEED={h}): values differ between uncached / cached / copy / '
                                           f'other evaluation order: {r["detail"]}', sig=r['inconsistent'][0])
                break
            diff = [k for k in KEYS if r['digest'][k] != r0['digest'][k]]
            if diff:
                rec.fail('across-processes', f'{r0["s"]!r}: {diff} differ between PYTHONHASHSEED={hs[0]} and {h}', sig=diff[0])
                break
        else:
            if i % 40 == 0:
                rec.sample('items', dict(smiles=r0['s'], digests=r0['digest']), cap=5)
    rec.counts['workers'] = len(hs)
    return rec.result()


def check_case(case, rec):
    """replay: evaluate one spec in six fresh interpreters"""
    specs = [case['spec']]
    import tempfile
    hs = [0, 1, 4294967295, 12345, 99991, 777]
    with tempfile.TemporaryDirectory(prefix='vf_c19_') as tmp:
        sp = os.path.join(tmp, 'specs.json')
        json.dump(specs, open(sp, 'w'))
        recs = []
        for h in hs:
            out = os.path.join(tmp, f'o{h}')
            env = dict(os.environ, PYTHONHASHSEED=str(h), VERIF_REPO=REPO, PYTHONPATH=VERIF)
            subprocess.run([sys.executable, '-m', 'vf.checks.c19_worker', sp, out, VERIF], env=env, cwd=VERIF, check=True,
                           capture_output=True)
            recs.append(json.loads(open(out).readline()))
    for h, r in zip(hs, recs):
        if r.get('inconsistent'):
            rec.fail('within-process', f'{r["s"]!r} (PYTHONHASHSEED={h}): {r["detail"]}', sig=r['inconsistent'][0])
        diff = [k for k in KEYS if not r.get('reject') and r['digest'][k] != recs[0]['digest'][k]]
        if diff:
            rec.fail('across-processes', f'{r["s"]!r}: {diff} differ between hash seeds', sig=diff[0])

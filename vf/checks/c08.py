"""
C08 - SMARTS primitives and query atoms match exactly what is documented.  DESIGN 2/C08.
"""
import itertools
import random as _random

from hypothesis import strategies as st

from .. import molgen
from ..core import hyp_run, direct_run, chython_frame
from ..oracles import mcb

ID = 'C08'
RULE = ('molecule (corpus / curated / generator / ring assemblies, normal state) x 8 drawn query atoms (every primitive and drawn '
        'pairs/triples of primitives: element, #n, element list, A, M, isotope, charge, CX radical, D, h, x, z, a, r, !R) and 4 drawn '
        'two-atom queries with bond primitives (- = # : ~, two-order lists, negation, ;@ ;!@), each rendered as SMARTS text AND built '
        'through the query API; the set of matched atoms / ordered atom pairs must equal the set selected by an independently '
        'computed attribute vector. plus: stereo-marked queries against both enantiomers, and every bracket/bond token string up '
        'periodic-table sweep of element / #n / element lists / A / M; ring marks combined with cis/trans marks on one bond; QueryElement.from_atom with drawn flags. to 3 tokens for the reject-or-query clause. non-trivial = the query selects a proper non-empty subset; distinct by '
        '(query text, molecule string)'
        '; also: single counts reach the constructors as plain ints (incl. 0).'
        '; also: query by example: two-atom queries written after a bond of the molecule, second atom with one primitive it has / has not (ring sizes: one of its sizes).')
ASSUMPTIONS = ['attribute vectors: neighbours/heteroatoms/hybridisation from the adjacency by the documented definitions, ring '
               'membership and sizes from vf/oracles/mcb.py (ring-size primitives only where the minimum cycle basis is unique), '
               'hydrogens as stored on the atom (decided in C04/C05)',
               'chython query defaults taken from the documentation of ExtendedQuery: no charge given = 0, not radical; empty constraint = any; '
               '~ denotes the special (order 8) bond; M ignores charge/radical/isotope/H/heteroatoms/rings',
               'metal set: elements that are unambiguously metals in the periodic table; metalloid/ambiguous elements are not used for M']

NONMETAL = {'H', 'B', 'C', 'N', 'O', 'F', 'Si', 'P', 'S', 'Cl', 'As', 'Se', 'Br', 'Te', 'I', 'He', 'Ne', 'Ar', 'Kr', 'Xe', 'Rn', 'Og'}
AMBIGUOUS = {'Ge', 'Sb', 'At', 'Po', 'Sn', 'Bi', 'Ts', 'Al', 'Ga', 'In', 'Tl', 'Pb', 'Be', 'Lv', 'Mc', 'Fl', 'Nh', 'Cn'}
ELEMENTS = ['C', 'N', 'O', 'S', 'F', 'Cl', 'Br', 'P', 'B', 'Si', 'I', 'Se', 'H', 'Na', 'Fe', 'Li', 'Cu', 'Zn', 'Pd', 'Pt', 'Mg', 'K']


def shards(tier, seed):
    n = 350 if tier == 'quick' else 5000
    out = [dict(shard=i, n=n) for i in range(12)]
    out += [dict(kind='syntax', part=i, parts=4) for i in range(4)]
    out += [dict(kind='stereo', shard=i, n=60 if tier == 'quick' else 800) for i in range(2)]
    out += [dict(kind='elements', zs=list(range(z, min(z + 15, 119)))) for z in range(1, 119, 15)]
    out.append(dict(kind='ctring'))
    return out


# ---------------------------------------------------------------------------------------------------
# strategies

def _lst(lo, hi, maxlen=2):
    return st.lists(st.integers(lo, hi), min_size=1, max_size=maxlen, unique=True).map(sorted)


atom_query = st.fixed_dictionaries({
    'el': st.one_of(st.tuples(st.just('sym'), st.sampled_from(ELEMENTS)),
                    st.tuples(st.just('sym'), st.sampled_from(['C', 'N', 'O'])),
                    st.tuples(st.just('num'), st.sampled_from([6, 7, 8, 16, 9, 17])),
                    st.tuples(st.just('list'), st.lists(st.sampled_from(ELEMENTS[:12]), min_size=2, max_size=3, unique=True)),
                    st.tuples(st.just('any')), st.tuples(st.just('any')), st.tuples(st.just('metal'))),
    'iso': st.sampled_from([None] * 9 + [13, 2, 15, 18, 37]),
    'charge': st.sampled_from([None] * 6 + [0, 1, -1, 2]),
    'radical': st.sampled_from([False] * 9 + [True]),
    'D': st.one_of(st.none(), st.none(), _lst(0, 4)),
    'h': st.one_of(st.none(), st.none(), _lst(0, 3)),
    'x': st.one_of(st.none(), st.none(), st.none(), _lst(0, 3)),
    'z': st.one_of(st.none(), st.none(), st.none(), _lst(1, 4), st.just('a')),
    'r': st.one_of(st.none(), st.none(), st.none(), _lst(3, 8), st.just('!R')),
})
bond_query = st.fixed_dictionaries({
    'orders': st.one_of(st.lists(st.sampled_from([1, 2, 3, 4]), min_size=1, max_size=2, unique=True).map(sorted),
                        st.just([8])),
    'neg': st.sampled_from([False] * 5 + [True]),
    'ring': st.sampled_from([None, None, True, False]),
})


def run_shard(shard, tier, seed):
    if shard.get('kind') == 'syntax':
        return direct_run(ID, syntax_cases(shard), check_case)
    if shard.get('kind') == 'ctring':
        return direct_run(ID, ctring_cases(), check_case)
    if shard.get('kind') == 'elements':
        return direct_run(ID, [{'element': z} for z in shard['zs']], check_case)
    if shard.get('kind') == 'stereo':
        strat = st.fixed_dictionaries({'stereo': molgen.mol_specs(max_atoms=10, corpus_w=4, curated_w=3, graph_w=4, sym_w=0,
                                                                  literal_w=0)})
        return hyp_run(ID, strat, check_case, max_examples=shard['n'], seed=seed * 1000 + 300 + shard['shard'])
    from .c06 import ring_assemblies
    strat = st.fixed_dictionaries({
        'mol': st.one_of(molgen.mol_specs(max_atoms=14, corpus_w=5, curated_w=4, graph_w=5, sym_w=1), ring_assemblies()),
        'explicit_h': st.sampled_from([0, 0, 0, 1, 2, 3]),
        'atoms': st.lists(atom_query, min_size=8, max_size=8),
        'pairs': st.lists(st.tuples(atom_query, bond_query, atom_query), min_size=4, max_size=4)})
    return hyp_run(ID, strat, check_case, max_examples=shard['n'], seed=seed * 1000 + shard['shard'])


# ---------------------------------------------------------------------------------------------------
# rendering

def atom_text(q):
    el = q['el']
    if el[0] == 'sym':
        e = el[1]
    elif el[0] == 'num':
        e = f'#{el[1]}'
    elif el[0] == 'list':
        e = ','.join(el[1])
    elif el[0] == 'any':
        e = 'A'
    else:
        e = 'M'
    t = '['
    if q['iso'] and el[0] not in ('metal', 'any', 'list'):
        t += str(q['iso'])
    t += e
    if el[0] != 'metal':
        for k in ('h', 'x'):
            if q[k] is not None:
                t += ';' + ','.join(f'{k}{v}' for v in q[k])
        if q['r'] == '!R':
            t += ';!R'
        elif q['r'] is not None:
            t += ';' + ','.join(f'r{v}' for v in q['r'])
    if q['D'] is not None:
        t += ';' + ','.join(f'D{v}' for v in q['D'])
    if q['z'] == 'a':
        t += ';a'
    elif q['z'] is not None:
        t += ';' + ','.join(f'z{v}' for v in q['z'])
    c = q['charge']
    if c and el[0] != 'metal':
        t += ('+' if c > 0 else '-') + (str(abs(c)) if abs(c) > 1 else '')
    return t + ']'


def atom_api(q):
    from chython.periodictable import QueryElement, ListElement, AnyElement, AnyMetal
    el = q['el']
    def one(v):  # a single value is given as a plain int (the documented scalar form), several as a tuple
        return v[0] if len(v) == 1 else tuple(v)
    hyb = None if q['z'] is None else (4 if q['z'] == 'a' else one(q['z']))
    nb = None if q['D'] is None else one(q['D'])
    if el[0] == 'metal':
        return AnyMetal(neighbors=nb, hybridization=hyb)
    kw = dict(charge=q['charge'] or 0, is_radical=q['radical'], neighbors=nb, hybridization=hyb,
              heteroatoms=None if q['x'] is None else one(q['x']),
              implicit_hydrogens=None if q['h'] is None else one(q['h']),
              ring_sizes=None if q['r'] is None else (0 if q['r'] == '!R' else tuple(q['r'])))
    if el[0] == 'sym':
        return QueryElement.from_symbol(el[1])(q['iso'], **kw)
    if el[0] == 'num':
        return QueryElement.from_atomic_number(el[1])(q['iso'], **kw)
    if el[0] == 'list':
        return ListElement(list(el[1]), **kw)
    return AnyElement(**kw)


def tabulated(q):
    from chython.periodictable import Element
    el = q['el']
    cls = Element.from_symbol(el[1]) if el[0] == 'sym' else Element.from_atomic_number(el[1])
    return q['iso'] in cls().isotopes_distribution


def bond_sets(b):
    o = set(b['orders'])
    if b['neg']:
        o = {1, 2, 3, 4} - o
    return o


def bond_text(b):
    sym = {1: '-', 2: '=', 3: '#', 4: ':', 8: '~'}
    if b['neg']:
        if len(b['orders']) != 1 or b['orders'][0] == 8:
            return None
        t = '!' + sym[b['orders'][0]]
    else:
        t = ','.join(sym[o] for o in b['orders'])
    if b['ring'] is not None:
        t += ';@' if b['ring'] else ';!@'
    return t


# ---------------------------------------------------------------------------------------------------
# independent attribute vectors

def vectors(m):
    adj = mcb.mol_adj(m)
    try:
        ring = mcb.analyse(adj)
    except OverflowError:
        ring = None
    # recorded gap of ring perception (C06, property text): in theta-type ring blocks the perceived ring set may be non-minimal, so the
    # ring sizes an atom reports are not decidable from the minimum cycle basis there
    from .c06 import theta_gap
    gap = ring is not None and len(ring.get('relevant', ())) >= 2 and theta_gap(adj)
    out = {}
    for n, a in m.atoms():
        nb = [(k, b.order) for k, b in m._bonds[n].items() if b.order != 8]
        orders = [o for _, o in nb]
        if 4 in orders:
            hyb = 4
        elif 3 in orders or orders.count(2) >= 2:
            hyb = 3
        elif orders.count(2) == 1:
            hyb = 2
        else:
            hyb = 1
        out[n] = dict(z=a.atomic_number, sym=a.atomic_symbol, iso=a.isotope, charge=a.charge, radical=a.is_radical,
                      D=len(nb), x=sum(1 for k, _ in nb if m.atom(k).atomic_number not in (1, 6)), hyb=hyb,
                      h=a.implicit_hydrogens,
                      in_ring=None if ring is None else n in ring['ring_atoms'],
                      rsizes=None if ring is None or not ring['unique'] or gap else {len(r) for r in ring['relevant'] if n in r})
    return out, ring


def satisfies(q, v):
    """True / False / None (not decidable by the independent vector: skip)"""
    from chython.periodictable import Element
    el = q['el']
    if el[0] == 'metal':
        if v['sym'] in AMBIGUOUS:
            return None
        if v['sym'] in NONMETAL:
            return False
        return (q['D'] is None or v['D'] in q['D']) and (q['z'] is None or v['hyb'] in ([4] if q['z'] == 'a' else q['z']))
    if el[0] == 'sym' and v['sym'] != el[1]:
        return False
    if el[0] == 'num' and v['z'] != el[1]:
        return False
    if el[0] == 'list' and v['sym'] not in el[1]:
        return False
    if v['charge'] != (q['charge'] or 0) or v['radical'] != q['radical']:
        return False
    if q['iso'] and el[0] in ('sym', 'num') and v['iso'] != q['iso']:
        return False
    if q['D'] is not None and v['D'] not in q['D']:
        return False
    if q['h'] is not None and v['h'] not in q['h']:
        return False
    if q['x'] is not None and v['x'] not in q['x']:
        return False
    if q['z'] is not None and v['hyb'] not in ([4] if q['z'] == 'a' else q['z']):
        return False
    if q['r'] == '!R':
        if v['in_ring'] is None:
            return None
        if v['in_ring']:
            return False
    elif q['r'] is not None:
        if v['rsizes'] is None:
            return None
        if not v['rsizes'] & set(q['r']):
            return False
    return True


# ---------------------------------------------------------------------------------------------------

def check_elements(case, rec):
    """exhaustive over the periodic table: element, #n, element lists (two and three members drawn from the whole table, heavy
    elements included), A and M against a one-atom and a three-atom molecule of that element; truth = symbol membership"""
    from chython import smarts, MoleculeContainer, QueryContainer
    from chython.periodictable import Element, ListElement, QueryElement, AnyElement, AnyMetal
    z = case['element']
    if z > 115:
        rec.count('skip:Lv/Ts/Og are treated as equal by the default matcher (documented)')
        return
    cls = Element.from_atomic_number(z)
    sym = cls.__name__
    syms = [Element.from_atomic_number(i).__name__ for i in range(1, 119)]
    mols = []
    m1 = MoleculeContainer()
    m1.add_atom(cls(), 1)
    mols.append(('[%s]' % sym, m1, 1))
    m3 = MoleculeContainer()
    m3.add_atom('Cl', 1)
    m3.add_atom(cls(), 2)
    m3.add_atom('Cl', 3)
    m3.add_bond(1, 2, 1)
    m3.add_bond(2, 3, 1)
    mols.append(('Cl[%s]Cl' % sym, m3, 2))
    others = [syms[(z + d - 1) % 118] for d in (1, 7, 19, 40, 77)] + ['C', 'Pt', 'U', 'Au', 'Hg', 'La', 'Ba', 'Cs']
    others = [o for o in dict.fromkeys(others) if o != sym and o not in ('Lv', 'Ts', 'Og')]
    others += [x for x in ('Fe', 'W', 'Pb', 'Bi', 'Ce') if x != sym and x not in others][:10 - len(others)]
    lists = [[sym, o] for o in others] + [[o, sym] for o in others[:4]] + [[others[0], sym, others[5]], [others[6], others[7], sym]] + \
            [[others[i], others[j]] for i, j in ((0, 1), (5, 6), (7, 8), (2, 9))] + [[others[6], others[8], others[7]]]
    queries = [('[%s]' % sym, lambda: QueryElement.from_symbol(sym)(), True), ('[#%d]' % z, lambda: QueryElement.from_atomic_number(z)(), True),
               ('[A]', lambda: AnyElement(), True)]
    for L in lists:
        queries.append(('[%s]' % ','.join(L), (lambda L=L: ListElement(list(L))), sym in L))
    if sym not in AMBIGUOUS:
        queries.append(('[M]', lambda: AnyMetal(), sym not in NONMETAL))
    for label, m, centre in mols:
        for text, api, want in queries:
            if z == 1 and text == '[H]':
                continue  # [H] in SMARTS text is the hydrogen atom: same thing, but the spelling is special-cased by readers
            for how in ('text', 'api'):
                if how == 'text':
                    ok, q = rec.guard('smarts-parse', smarts, text)
                    if not ok:
                        return
                else:
                    ok, qa = rec.guard('api-build', api)
                    if not ok:
                        return
                    q = QueryContainer('el')
                    q.add_atom(qa, 1)
                rec.evaluations += 1
                ok, got = rec.guard('match', lambda: {mp[next(iter(q))] for mp in q.get_mapping(m, automorphism_filter=False)})
                if not ok:
                    return
                if text == '[M]' and how == 'api' and label.startswith('Cl['):
                    pass
                if (centre in got) != want:
                    rec.fail('primitive', f'{text} ({how}) on {label}: atom of {sym} {"matched" if centre in got else "not matched"}, '
                                          f'expected {"match" if want else "no match"}', sig=f'{how}:element-sweep')
                    return
                rec.nt((text, label, how))
    rec.sample('element-sweep', dict(element=sym, lists=[','.join(L) for L in lists[:4]]), cap=3)


CT_TARGETS = ['C/C=C/C', 'C/C=C\\C', 'CC=CC', 'C1CCC/C=C/CCCC1', 'C1CCC/C=C\\CCCC1', 'C1CCCC=CCCCC1', 'C/C=C/C1CCC/C=C\\CCCC1',
              'C/N=C/C', 'C1CCC/C=N/CCCC1', 'CC#CC', 'C/C=C/C=C/C']
CT_MARKS = [('', ''), ('/', '/'), ('/', '\\'), ('\\', '/')]
CT_BONDS = ['=', '-,=', '=,#']  # the tokenizer supports lists of two orders
CT_RING = ['', ';@', ';!@']


def ctring_cases():
    for t in CT_TARGETS:
        for m1, m2 in CT_MARKS:
            for b in CT_BONDS:
                for a2 in ('C', 'N', '[C,N]'):
                    yield {'ctring': t, 'marks': [m1, m2], 'bond': b, 'end': a2}


def check_ctring(case, rec):
    """ring / non-ring marks on a bond that also carries cis/trans marks: the mark must select exactly the ring (non-ring) members of
    what the same query without the mark matches (metamorphic: no assumption about stereo matching itself)"""
    from chython import smarts, smiles
    t = smiles(case['ctring'])
    ring_bonds = {frozenset((a, b)) for a, b, bond in t.bonds() if bond.in_ring}
    m1, m2 = case['marks']
    res = {}
    for r in CT_RING:
        text = f'C{m1}C{case["bond"]}{r}{case["end"]}{m2}C'
        ok, q = rec.guard('smarts-parse', smarts, text)
        if not ok:
            return
        ok, got = rec.guard('match', lambda: {tuple(mp[k] for k in q) for mp in q.get_mapping(t, automorphism_filter=False)})
        if not ok:
            return
        res[r] = got
        rec.evaluations += 1
    for r, inside in ((';@', True), (';!@', False)):
        want = {mp for mp in res[''] if (frozenset((mp[1], mp[2])) in ring_bonds) == inside}
        if res[r] != want:
            rec.fail('bond-primitive', f'C{m1}C{case["bond"]}{r}{case["end"]}{m2}C on {case["ctring"]!r}: {len(res[r])} matches, the query '
                                       f'without the ring mark has {len(res[""])} of which {len(want)} lie {"in" if inside else "outside"} '
                                       f'a ring', sig='ring-mark-with-stereo' if m1 else 'ring-mark')
            return
    if res['']:
        rec.nt(('ctring', case['ctring'], m1, m2, case['bond'], case['end']))


def check_case(case, rec):
    if 'ctring' in case:
        return check_ctring(case, rec)
    if 'element' in case:
        return check_elements(case, rec)
    if 'syntax' in case:
        return check_syntax(case, rec)
    if 'stereo' in case:
        return check_stereo(case, rec)
    from chython import smarts, QueryContainer
    from chython.containers.bonds import QueryBond
    try:
        m = molgen.build(case['mol'])
    except molgen.Reject as e:
        rec.count(f'generator-reject:{e}')
        return
    if len(m) > 40:
        rec.count('skip:large')
        return
    if case.get('explicit_h'):
        # turn some implicit hydrogens into explicit atoms through the public API (Kekule form, then back)
        rnd = _random.Random(case['explicit_h'])
        try:
            m.kekule()
            for n in [n for n, a in m.atoms() if a.implicit_hydrogens and a.atomic_number != 1 and rnd.random() < .4][:4]:
                for _ in range(rnd.randint(1, m.atom(n).implicit_hydrogens)):
                    m.add_bond(n, m.add_atom('H'), 1)
            m.thiele()
            rec.count('molecules-with-explicit-hydrogens')
        except Exception as e:
            rec.count(f'generator-reject:explicit-H:{type(e).__name__}')
            return
    vec, ring = vectors(m)
    ms = str(m)
    for q in case['atoms']:
        if q['iso'] and q['el'][0] in ('any', 'list', 'metal'):
            q = dict(q, iso=None)
        text = atom_text(q)
        full = text + (' |^1:0|' if q['radical'] and q['el'][0] != 'metal' else '')
        want = {n: satisfies(q, v) for n, v in vec.items()}
        if any(x is None for x in want.values()):
            rec.count('skip:not-decidable-independently (ring sizes without unique basis / ambiguous metal)')
            continue
        want = {n for n, x in want.items() if x}
        if q['iso'] and q['el'][0] in ('any', 'list', 'metal'):
            q = dict(q, iso=None)
        if q['iso'] and not tabulated(q):
            rec.count('skip:isotope not tabulated for the element (query outside the sound domain)')
            continue
        for how in ('text', 'api'):
            if how == 'text':
                ok, qc = rec.guard('smarts-parse', smarts, full)
                if not ok:
                    continue
            else:
                ok, qa = rec.guard('api-build', atom_api, q)
                if not ok:
                    continue
                qc = QueryContainer('api')
                qc.add_atom(qa, 1)
            ok, got = rec.guard('match', lambda: {mp[next(iter(qc))] for mp in qc.get_mapping(m, automorphism_filter=False)})
            if not ok:
                continue
            rec.count(f'atom-queries:{how}')
            if got != want:
                n = sorted(got ^ want)[0]
                kind = next((k for k in ('D', 'h', 'x', 'z', 'r') if q[k] is not None), q['el'][0])
                rec.fail('atom-primitive', f'{full!r} ({how}) on {ms!r}: matched atoms {sorted(got)}, attribute vectors select '
                                           f'{sorted(want)}; e.g. atom {n}: {vec[n]}', sig=f'{how}:{kind}')
                return
            if want and len(want) < len(m):
                rec.nt((full, ms))
                rec.sample('atom-query', dict(smarts=full, molecule=ms, matched=sorted(want)), cap=5)
    # queries derived from a template atom (QueryElement.from_atom) with drawn flags: must select exactly the atoms that agree with
    # the template in element, isotope, charge, radical state and in every flagged attribute (independent vectors)
    from chython.periodictable import QueryElement
    frnd = _random.Random(len(ms) * 7919 + case.get('explicit_h', 0))
    for n in frnd.sample(list(m), min(3, len(m))):
        a = m.atom(n)
        flags = {k: frnd.random() < .5 for k in ('neighbors', 'hybridization', 'heteroatoms', 'hydrogens', 'ring_sizes')}
        if flags['ring_sizes'] and (ring is None or vec[n]['rsizes'] is None):
            flags['ring_sizes'] = False
        if flags['ring_sizes']:
            from .c06 import theta_gap
            if theta_gap(mcb.mol_adj(m)):
                flags['ring_sizes'] = False  # recorded gap of ring perception (C06): reported ring sizes may be non-minimal there
        ok, qa = rec.guard('api-build', lambda: QueryElement.from_atom(a, **flags))
        if not ok:
            continue
        qc = QueryContainer('from_atom')
        qc.add_atom(qa, 1)
        ok, got = rec.guard('match', lambda: {mp[1] for mp in qc.get_mapping(m, automorphism_filter=False)})
        if not ok:
            continue
        v0 = vec[n]
        keys = ['z', 'charge', 'radical'] + [k for k, f in (('D', flags['neighbors']), ('hyb', flags['hybridization']),
                                                            ('x', flags['heteroatoms']), ('h', flags['hydrogens'])) if f]
        # an isotope on the template is part of the query, no isotope means any isotope; a ring-size list means "in a ring of one
        # of these sizes" (the r primitive), an empty one "not in a ring"
        want = {k for k, v in vec.items() if all(v[key] == v0[key] for key in keys) and (not v0['iso'] or v['iso'] == v0['iso']) and
                (not flags['ring_sizes'] or v['rsizes'] is None or (bool(v['rsizes'] & v0['rsizes']) if v0['rsizes'] else not v['rsizes']))}
        if flags['ring_sizes'] and any(v['rsizes'] is None for v in vec.values()):
            continue
        rec.count('from-atom-queries')
        if got != want:
            rec.fail('atom-primitive', f'QueryElement.from_atom(atom {n} of {ms!r}, {[k for k, f in flags.items() if f]}): matched '
                                       f'{sorted(got)}, atoms agreeing with the template in those attributes {sorted(want)}',
                     sig='from_atom:' + ','.join(k for k, f in flags.items() if f))
            return
    bonds = {(a, b): bond for a, k in m._bonds.items() for b, bond in k.items()}
    for q1, b, q2 in list(case['pairs']) + derived_pairs(m, vec, _random.Random(len(ms) * 104729 + case.get('explicit_h', 0)), rec):
        q1, q2 = [dict(q, iso=None) if q['iso'] and (q['el'][0] in ('any', 'list', 'metal') or not tabulated(q)) else q
                  for q in (q1, q2)]
        bt = bond_text(b)
        oset = bond_sets(b)
        w1 = {n: satisfies(q1, v) for n, v in vec.items()}
        w2 = {n: satisfies(q2, v) for n, v in vec.items()}
        if any(x is None for x in w1.values()) or any(x is None for x in w2.values()) or (b['ring'] is not None and ring is None):
            rec.count('skip:not-decidable-independently (ring sizes without unique basis / ambiguous metal)')
            continue
        want = set()
        for (x, y), bond in bonds.items():
            if bond.order in oset and w1[x] and w2[y] and \
                    (b['ring'] is None or (frozenset((x, y)) in ring['ring_bonds']) == b['ring']):
                want.add((x, y))
        for how in ('text', 'api'):
            if how == 'text':
                if bt is None:
                    continue
                radicals = [str(i) for i, q in enumerate((q1, q2)) if q['radical'] and q['el'][0] != 'metal']
                full = atom_text(q1) + bt + atom_text(q2) + (' |^1:' + ','.join(radicals) + '|' if radicals else '')
                ok, qc = rec.guard('smarts-parse', smarts, full)
                if not ok:
                    continue
                k1, k2 = list(qc)
            else:
                full = f'api:{atom_text(q1)}{b}{atom_text(q2)}'
                ok, qa = rec.guard('api-build', lambda: (atom_api(q1), atom_api(q2)))
                if not ok:
                    continue
                qc = QueryContainer('api')
                k1 = qc.add_atom(qa[0], 1)
                k2 = qc.add_atom(qa[1], 2)
                qc.add_bond(1, 2, QueryBond(tuple(sorted(oset)), b['ring']))
            ok, got = rec.guard('match', lambda: {(mp[k1], mp[k2]) for mp in qc.get_mapping(m, automorphism_filter=False)})
            if not ok:
                continue
            rec.count(f'pair-queries:{how}')
            if got != want:
                rec.fail('bond-primitive', f'{full!r} on {ms!r}: matched pairs {sorted(got)[:6]}, expected {sorted(want)[:6]}',
                         sig=f'{how}:{"ring" if b["ring"] is not None else ("neg" if b["neg"] else "order")}')
                return
            if want and len(want) < len(bonds):
                rec.nt((full, ms))
                rec.sample('pair-query', dict(smarts=full, molecule=ms, pairs=len(want)), cap=5)


def derived_pairs(m, vec, rnd, rec, k=5):
    """two-atom queries written after a bond of the molecule itself (query by example): the first atom is named by element (sometimes
    with one primitive), the second - the one the matcher reaches by neighbour expansion - carries exactly one primitive whose value
    is, three times out of four, one the atom has (for ring sizes: ONE of its sizes, so that atoms in rings of two sizes are met by a
    query that lists only one of them) and otherwise one it does not have.  Drawn independent pairs rarely match anything; these do"""
    bonds = [(x, y, b.order) for x, nb in m._bonds.items() for y, b in nb.items()
             if vec[x]['z'] != 1 and vec[y]['z'] != 1 and vec[x]['sym'] not in AMBIGUOUS and vec[y]['sym'] not in AMBIGUOUS]
    out = []
    if not bonds:
        return out

    def q_of(n, rich):
        v = vec[n]
        q = dict(el=('sym', v['sym']), iso=None, charge=v['charge'], radical=v['radical'], D=None, h=None, x=None, z=None, r=None)
        if not rich:
            return q
        key = rnd.choice(['D', 'h', 'x', 'z', 'r', 'r', 'r'])
        truth = rnd.random() < .75
        if key == 'D' and v['D'] <= 4:
            q['D'] = [v['D'] if truth else (v['D'] + 1) % 5]
        elif key == 'h' and v['h'] is not None and v['h'] <= 3:
            q['h'] = [v['h'] if truth else (v['h'] + 1) % 4]
        elif key == 'x' and v['x'] <= 3:
            q['x'] = [v['x'] if truth else (v['x'] + 1) % 4]
        elif key == 'z':
            q['z'] = [v['hyb'] if truth else v['hyb'] % 4 + 1]
        elif key == 'r' and v['rsizes'] is not None:
            sizes = sorted(s for s in v['rsizes'] if 3 <= s <= 8)
            if not v['rsizes']:
                q['r'] = '!R' if truth else [rnd.choice([5, 6])]
            elif sizes and len(sizes) == len(v['rsizes']):
                other = [s for s in range(3, 9) if s not in v['rsizes']]
                q['r'] = [rnd.choice(sizes)] if truth else [rnd.choice(other)]
                if truth and len(sizes) > 1:
                    rec.count('derived-pairs:second atom in rings of two sizes, query lists one of them')
        return q
    for _ in range(k):
        x, y, o = rnd.choice(bonds)
        out.append((q_of(x, rnd.random() < .3), dict(orders=[o], neg=False, ring=None), q_of(y, True)))
    return out


# ---------------------------------------------------------------------------------------------------

def check_stereo(case, rec):
    """a query carrying stereo marks matches the molecule it was made from and not its mirror image"""
    from chython import QueryContainer
    from chython.periodictable import QueryElement
    from chython.containers.bonds import QueryBond
    from ..oracles import wl
    try:
        m = molgen.build_kekule(case['stereo'])
    except molgen.Reject as e:
        rec.count(f'generator-reject:{e}')
        return
    th = [n for n in m.stereogenic_tetrahedrons if m.atom(n).stereo is not None and not m.atom(n).in_ring]
    if len(th) != 1 or len(m) > 20 or any(b.stereo is not None for *_, b in m.bonds()) or \
            any(m.atom(n).stereo is not None for n in m.stereogenic_allenes):
        rec.count('skip:stereo-domain (exactly one labelled acyclic tetrahedral centre wanted)')
        return
    c = th[0]
    col, adj = wl.constitution(m)
    try:
        orb = wl.orbits(col, adj)
    except TimeoutError:
        return
    if len({orb[x] for x in m._bonds[c]}) != len(m._bonds[c]):
        rec.count('skip:centre with equivalent substituents')
        return
    q = QueryContainer('stereo')
    for n, a in m.atoms():
        q.add_atom(QueryElement.from_atom(a), n)
    for a, b, bond in m.bonds():
        q.add_bond(a, b, QueryBond.from_bond(bond))
    # a query's stereo mark refers to the query atom's own neighbour order
    q.atom(c).stereo = m._translate_tetrahedron_sign(c, list(q._bonds[c]))
    mirror = m.copy()
    mirror.atom(c)._stereo = not mirror.atom(c).stereo
    mirror.flush_cache()
    ok, hit = rec.guard('stereo-match', lambda: list(q.get_mapping(m)))
    if not ok:
        return
    ok, miss = rec.guard('stereo-match', lambda: list(q.get_mapping(mirror)))
    if not ok:
        return
    rec.nt(('stereo', str(m)))
    if not hit:
        rec.fail('stereo-query', f'{str(m)!r}: a query with the molecule\'s own stereo mark does not match it')
    elif miss:
        rec.fail('stereo-query', f'{str(m)!r}: a query with its stereo mark matches the mirror image {str(mirror)!r}')


# ---------------------------------------------------------------------------------------------------
# syntax: reject-or-query over short token strings

BR_TOKENS = ['C', 'N', 'c', 'A', 'M', '#6', '13', ';', ',', 'D2', 'h1', 'x1', 'z2', 'r5', 'a', '!R', '+', '-', '!', '&', '$(C)', 'X2',
             'v4', 'D15', 'r2', 'R', 'H', '@', ':1', 'D', 'z5', 'h', '*']
BOND_TOKENS = ['', '-', '=', '#', ':', '~', '-,=', '!:', '!-', '-;@', '=;!@', '@', '!@', ';@', '-,=,#', '!', ',', '-;', '/', '\\', '&']
MUST_REJECT = ['[C&D2]', '[$(C)]', 'C@C', '[!C]', '[C;D2,h1]', '[C;X2]', '[C;v4]', '[C;D15]', '[C;r2]', '[C;R]', '[C;z5]',
               '[C;D]', '[*]', 'C!@C', 'C-,=,#C', '[C;!D2]', '[C;$(CC)]', '[C,N&D2]', '[Xx]', 'C&C']


def syntax_cases(shard):
    idx = 0
    for L in (1, 2, 3):
        for toks in itertools.product(BR_TOKENS, repeat=L):
            idx += 1
            if idx % shard['parts'] == shard['part']:
                yield {'syntax': '[' + ''.join(toks) + ']'}
    for b in BOND_TOKENS:
        for a1, a2 in (('C', 'C'), ('[C;D2]', 'N'), ('c', 'c')):
            idx += 1
            if idx % shard['parts'] == shard['part']:
                yield {'syntax': a1 + b + a2}
                yield {'syntax': a1 + '1' + a2 + a2 + b + '1'}
    if shard['part'] == 0:
        for s in MUST_REJECT:
            yield {'syntax': s, 'must_reject': True}


def check_syntax(case, rec):
    from chython import smarts, QueryContainer
    from chython.exceptions import IncorrectSmiles
    text = case['syntax']
    try:
        q = smarts(text)
    except IncorrectSmiles:
        rec.count('syntax:rejected')
        if len(text) > 4:
            rec.nt(text)
        return
    except ValueError as e:
        rec.count('syntax:rejected-with-plain-ValueError')
        if case.get('must_reject'):
            rec.fail('reject-error-class', f'smarts({text!r}) raises {type(e).__name__} ({e}), not the invalid-SMARTS error',
                     sig=type(e).__name__)
        return
    except Exception as e:
        rec.fail('unrelated-exception', f'smarts({text!r}): {type(e).__name__}: {e}',
                 sig=f'{type(e).__name__}@{chython_frame(e.__traceback__)}')
        return
    rec.count('syntax:accepted')
    if case.get('must_reject'):
        rec.fail('unsupported-accepted', f'smarts({text!r}) is outside the documented subset but returned a query', sig=text)
        return
    if not isinstance(q, QueryContainer) or not len(q):
        rec.fail('syntax-result', f'smarts({text!r}) returned {q!r}')
    rec.sample('syntax-accepted', text, cap=6)

"""
C04 - implicit hydrogen counts and valence errors follow the element valence rules.  DESIGN 2/C04.
"""
import itertools

from hypothesis import strategies as st

from .. import molgen
from ..core import hyp_run, direct_run
from ..oracles import valence_ref

ID = 'C04'
EXHAUSTIVE = {'quick': False, 'thorough': False}
RULE = ('exhaustive stratum: centre element (13 organic-subset elements; all 118 thorough) x charge -2..+2 (-4..+4) x radical x '
        'every multiset of <= 4 bonds of orders 1-3 to C/N/O (+H/F/S/Cl thorough), built through add_atom/add_bond; random stratum: '
        'whole Kekule molecules (corpus, curated, generator). oracles: re-derivation of the hydrogen count from the raw element '
        'tables, check_valence() == atoms without a state, RDKit GetTotalNumHs where both accept, molecule totals recomputed. '
        'hydrogen bookkeeping: isotopic/explicit hydrogens attached through the API, explicify/implicify, several structural edits in one transaction, written bracket counts that are states of the tables. non-trivial = centre has a bond or charge or radical; distinct by (element, charge, radical, bond multiset)'
        '; also: canonicalize(keep_kekule x fix_tautomers) results are re-derived from the tables.'
        '; also: the curated witness list is swept completely on every run.')
ASSUMPTIONS = ['the documented table semantics as re-implemented in vf/oracles/valence_ref.py (first matching rule in table order)',
               'RDKit comparison is one-sided: only states both toolkits accept; elemental As/B/Si/P/Se/... conventions excluded '
               '(centre without bonds) and radicals excluded',
               'a consistent edit of an exotic data tuple that RDKit does not share is not detectable by re-derivation (DESIGN limit)']

ORGANIC = ['B', 'C', 'N', 'O', 'F', 'Si', 'P', 'S', 'Cl', 'As', 'Se', 'Br', 'I']


def shards(tier, seed):
    if tier == 'quick':
        els = ORGANIC
        out = [dict(kind='exh', elements=[e], charges=[-2, -1, 0, 1, 2], nbrs=['C', 'N', 'O']) for e in els]
    else:
        from .c18 import SYMBOLS
        out = [dict(kind='exh', elements=SYMBOLS[i:i + 4], charges=list(range(-4, 5)), nbrs=['C', 'N', 'O'])
               for i in range(0, 118, 4)]
        out += [dict(kind='exh', elements=[e], charges=[-2, -1, 0, 1, 2], nbrs=['C', 'N', 'O', 'H', 'F', 'S', 'Cl']) for e in ORGANIC]
    out += [dict(kind='mol', shard=i, n=1200 if tier == 'quick' else 8000) for i in range(6 if tier == 'quick' else 12)]
    out.append(dict(kind='curated'))
    return out


def run_shard(shard, tier, seed):
    if shard['kind'] == 'exh':
        opts = [(o, e) for e in shard['nbrs'] for o in (1, 2, 3)]
        cases = []
        for el in shard['elements']:
            for ch in shard['charges']:
                for rad in (False, True):
                    for k in range(0, 5):
                        for ms in itertools.combinations_with_replacement(range(len(opts)), k):
                            cases.append(dict(centre=el, charge=ch, radical=rad, bonds=[list(opts[i]) for i in ms]))
        return direct_run(ID, cases, check_case)
    if shard['kind'] == 'curated':
        # the curated witnesses are swept completely on every run (drawn cases meet a given witness only now and then)
        return direct_run(ID, [{'mol': {'k': 'smi', 's': s}, 'hseed': (seed * 7919 + i) % 2 ** 20} for i, s in enumerate(molgen.curated())],
                          check_case)
    strat = st.fixed_dictionaries({'mol': molgen.mol_specs(max_atoms=16), 'hseed': st.integers(0, 2 ** 20)})
    return hyp_run(ID, strat, check_case, max_examples=shard['n'], seed=seed * 1000 + shard['shard'])


def check_case(case, rec):
    if 'centre' in case:
        return check_centre(case, rec)
    return check_molecule(case, rec)


def rdkit_centre_h(case):
    """total H on the centre according to RDKit, or None if RDKit rejects / not comparable"""
    try:
        from rdkit import Chem
    except ImportError:
        return None
    rw = Chem.RWMol()
    a = Chem.Atom(case['centre'])
    a.SetFormalCharge(case['charge'])
    c = rw.AddAtom(a)
    for o, e in case['bonds']:
        k = rw.AddAtom(Chem.Atom(e))
        rw.AddBond(c, k, {1: Chem.BondType.SINGLE, 2: Chem.BondType.DOUBLE, 3: Chem.BondType.TRIPLE}[o])
    m = rw.GetMol()
    try:
        Chem.SanitizeMol(m)
    except Exception:
        return None
    return m.GetAtomWithIdx(c).GetTotalNumHs()


def check_centre(case, rec):
    from chython import MoleculeContainer
    from chython.periodictable import Element
    key = (case['centre'], case['charge'], case['radical'], tuple(map(tuple, case['bonds'])))
    m = MoleculeContainer()
    cls = Element.from_symbol(case['centre'])
    ok, c = rec.guard('build', lambda: m.add_atom(cls(charge=case['charge'], is_radical=case['radical'])))
    if not ok:
        return
    for o, e in case['bonds']:
        k = m.add_atom(e)
        ok, _ = rec.guard('build', m.add_bond, c, k, o)
        if not ok:
            return
    if case['bonds'] or case['charge'] or case['radical']:
        rec.nt(key)
    atom = m.atom(c)
    ref = valence_ref.implicit_h(atom, valence_ref.atom_neighbours(m, c))
    got = atom.implicit_hydrogens
    rec.count('centre:valid' if ref is not None else 'centre:no-state')
    if got != ref:
        rec.fail('rederivation', f'{key}: library gives H={got}, tables say H={ref}', sig=case['centre'])
        return
    inv = m.check_valence()
    ref_inv = [n for n in m if valence_ref.implicit_h(m.atom(n), valence_ref.atom_neighbours(m, n)) is None]
    if sorted(inv) != sorted(ref_inv):
        rec.fail('check-valence', f'{key}: check_valence()={inv}, atoms without a state by the tables={ref_inv}',
                 sig=case['centre'])
        return
    if ref is not None and not case['radical'] and case['bonds'] and all(e != 'H' for _, e in case['bonds']) and \
            (case['centre'] not in ORGANIC or abs(case['charge']) > 2):
        # RDKit's valence model is an independent judge for common chemistry only; for metals, heavy p-block elements and
        # charges beyond +-2 its hydrogen counts are conventions of its own
        rec.count('rdkit:not-claimed (element or charge outside common chemistry)')
    elif ref is not None and not case['radical'] and case['bonds'] and all(e != 'H' for _, e in case['bonds']):
        rd = rdkit_centre_h(case)
        if rd is None:
            rec.count('rdkit:rejects')
        else:
            rec.count('rdkit:both-accept')
            if rd != ref:
                rec.fail('rdkit-h', f'{key}: chython H={ref}, RDKit H={rd}', sig=f'{case["centre"]}{case["charge"]:+d}')
    if ref is not None and all(a.implicit_hydrogens is not None for _, a in m.atoms()):
        totals(m, rec, str(key))
    if len(case['bonds']) == 4 and case['charge'] == 0:
        rec.sample('centre', dict(case=case, H=ref), cap=6)


def totals(m, rec, label):
    from chython.periodictable import H as HCls
    hm = valence_ref.natural_mass(HCls())
    brutto = {}
    mass = 0.
    charge = 0
    rad = False
    for _, a in m.atoms():
        brutto[a.atomic_symbol] = brutto.get(a.atomic_symbol, 0) + 1
        if a.implicit_hydrogens:
            brutto['H'] = brutto.get('H', 0) + a.implicit_hydrogens
        mass += valence_ref.natural_mass(a) + a.implicit_hydrogens * hm
        charge += a.charge
        rad = rad or a.is_radical
    got = {k: v for k, v in m.brutto.items() if v}
    if got != brutto:
        rec.fail('totals', f'{label}: brutto {got} != {brutto}', sig='brutto')
    if int(m) != charge or m.molecular_charge != charge:
        rec.fail('totals', f'{label}: charge {int(m)} != {charge}', sig='charge')
    if m.is_radical != rad:
        rec.fail('totals', f'{label}: is_radical {m.is_radical} != {rad}', sig='radical')
    if abs(float(m) - mass) > 1e-9 * max(1., mass) or abs(m.molecular_mass - mass) > 1e-9 * max(1., mass):
        rec.fail('totals', f'{label}: mass {float(m)} != {mass}', sig='mass')


def check_molecule(case, rec):
    spec = case['mol']
    try:
        m = molgen.build_kekule(spec)
    except molgen.Reject as e:
        rec.count(f'generator-reject:{e}')
        return
    rec.count(f'source:{spec["k"]}')
    rec.nt(str(m))
    for n, a in m.atoms():
        ref = valence_ref.implicit_h(a, valence_ref.atom_neighbours(m, n))
        if a.implicit_hydrogens != ref and spec['k'] != 'graph' and \
                a.implicit_hydrogens in valence_ref.implicit_h_all(a, valence_ref.atom_neighbours(m, n)):
            # text input: a bracket atom may select another valid state of the tables (e.g. elemental [13C])
            rec.count('text-selected-alternative-state')
            continue
        if a.implicit_hydrogens != ref:
            nb = sorted(valence_ref.atom_neighbours(m, n))
            rec.fail('rederivation', f'{str(m)!r} atom {n} ({a.atomic_symbol} charge {a.charge} radical {a.is_radical} '
                                     f'bonds {nb}): library H={a.implicit_hydrogens}, tables H={ref}', sig=a.atomic_symbol)
            return
    if m.check_valence():
        rec.fail('check-valence', f'{str(m)!r}: check_valence()={m.check_valence()} on a molecule whose atoms all have a state')
    totals(m, rec, str(m))
    # a hydrogen count written in a bracket atom that is a state of the tables for that atom must be the stored count
    s = molgen.spec_smiles(spec)
    if s is not None and '>' not in s:
        from ..oracles import smiles_ref
        try:
            ref_atoms = smiles_ref.parse(s)['molecule']['atoms']
        except Exception:
            ref_atoms = None
        if ref_atoms is not None and len(ref_atoms) == len(m):
            for (n, a), ra in zip(m.atoms(), ref_atoms):
                if ra['bracket'] and not ra['aromatic'] and ra['hcount'] is not None and ra['symbol'] == a.atomic_symbol and \
                        not any(m.atom(k).atomic_number == 1 for k in m._bonds[n]):
                    if ra['hcount'] in valence_ref.implicit_h_all(a, valence_ref.atom_neighbours(m, n)):
                        rec.count('written-hydrogen-counts-checked')
                        if a.implicit_hydrogens != ra['hcount']:
                            rec.fail('written-h', f'{s!r} atom {n}: written with H{ra["hcount"]} (a state of the element tables), stored '
                                                  f'count {a.implicit_hydrogens}', sig=a.atomic_symbol)
                            return
    # RDKit per atom, text order, for corpus strings (both toolkits read the same text)
    s = molgen.spec_smiles(spec)
    if s is not None and spec['k'] == 'corpus':
        try:
            from rdkit import Chem
            rd = Chem.MolFromSmiles(s)
        except ImportError:
            rd = None
        if rd is not None and rd.GetNumAtoms() == len(m):
            rec.count('rdkit:molecules-compared')
            for (n, a), ra in zip(m.atoms(), rd.GetAtoms()):
                if ra.GetSymbol() != a.atomic_symbol:
                    rec.count('rdkit:order-mismatch')
                    break
                if ra.GetTotalNumHs() != a.implicit_hydrogens:
                    rec.fail('rdkit-h', f'{s!r} atom {n} ({a.atomic_symbol}): chython H={a.implicit_hydrogens}, '
                                        f'RDKit H={ra.GetTotalNumHs()}', sig=a.atomic_symbol)
                    return
    rec.sample('molecule', str(m), cap=6)
    hydrogen_bookkeeping(m, case.get('hseed', 0), rec)


def rederive(m, rec, label, clause):
    for n, a in m.atoms():
        ref = valence_ref.implicit_h(a, valence_ref.atom_neighbours(m, n))
        if a.implicit_hydrogens != ref:
            nb = sorted(valence_ref.atom_neighbours(m, n))
            rec.fail(clause, f'{label} atom {n} ({a.atomic_symbol} charge {a.charge} bonds {nb}): library H={a.implicit_hydrogens}, '
                             f'tables H={ref}', sig=a.atomic_symbol)
            return False
    return True


def hydrogen_bookkeeping(m0, hseed, rec):
    """explicit hydrogens incl. isotopic ones attached through the API, then explicify / implicify: every count must stay the one
    the element tables give for the current neighbours, totals must not move"""
    import random as _random
    from chython.periodictable import H as HCls
    from chython.exceptions import ValenceError
    if any(a.implicit_hydrogens is None for _, a in m0.atoms()):
        return
    rnd = _random.Random(hseed)
    m = m0.copy()
    if any(a.implicit_hydrogens != valence_ref.implicit_h(a, valence_ref.atom_neighbours(m, n)) for n, a in m.atoms()):
        return  # text-selected alternative states: judged above, not a basis for this clause
    label = repr(str(m0))
    hosts = [n for n, a in m.atoms() if a.implicit_hydrogens and a.atomic_number != 1]
    rnd.shuffle(hosts)
    added = 0
    for n in hosts[:rnd.randrange(3)]:
        before = m.atom(n).implicit_hydrogens
        h = m.add_atom(HCls(rnd.choice([2, 2, 3, None])))
        m.add_bond(n, h, 1)
        added += 1
        if m.atom(n).implicit_hydrogens != before - 1:
            rec.fail('explicit-h', f'{label}: attaching a hydrogen atom to atom {n} changed its implicit count {before} -> '
                                   f'{m.atom(n).implicit_hydrogens}')
            return
    # several structural edits in one transaction: hydrogens are recalculated at the end for every touched atom
    t = m.copy()
    nums = list(t)
    bl = [(x, y) for x, y, b in t.bonds() if b.order != 8]
    free = [(x, y) for x in nums for y in nums if x < y and not t.has_bond(x, y)
            and t.atom(x).implicit_hydrogens and t.atom(y).implicit_hydrogens]
    if bl and free:
        x, y = free[rnd.randrange(len(free))]
        cand = [e for e in bl if not set(e) & {x, y}] or bl
        p, q = cand[rnd.randrange(len(cand))]
        try:
            with t:
                t.add_bond(x, y, 1)
                t.delete_bond(p, q)
        except Exception as e:
            rec.count(f'hydrogens:transaction-refused:{type(e).__name__}')
        else:
            if not rederive(t, rec, f'{label} after add_bond({x},{y}) + delete_bond({p},{q}) in one transaction', 'transaction-h'):
                return
            rec.count('hydrogens:transactions')
    # normalisation with every option combination that hands back a Kekule structure: each stored count must be a state of the
    # element tables for the bonds and charge the atom ends up with
    for ft in (False, True):
        c = m0.copy()
        try:
            c.canonicalize(fix_tautomers=ft, keep_kekule=True)
        except Exception:
            rec.count('hydrogens:canonicalize-refused')
            continue
        if any(b.order == 4 for *_, b in c.bonds()):
            continue
        if c.check_valence() or any(a.implicit_hydrogens is None for _, a in c.atoms()):
            rec.count('hydrogens:canonicalize reports an invalid result itself (C14 matter)')
            continue
        for n, a in c.atoms():
            if a.implicit_hydrogens not in valence_ref.implicit_h_all(a, valence_ref.atom_neighbours(c, n)):
                rec.fail('canonicalize-h', f'{label}: canonicalize(fix_tautomers={ft}, keep_kekule=True) gives {str(c)!r}: atom {n} '
                                           f'({a.atomic_symbol}, charge {a.charge}) stores {a.implicit_hydrogens} hydrogens, not a state of '
                                           f'the element tables for its bonds', sig=f'ft={ft}')
                return
        rec.count('hydrogens:canonicalize-kekule')
    total = sum(a.implicit_hydrogens + (a.atomic_number == 1) for _, a in m.atoms())
    brutto = dict(m.brutto)
    if added:
        rec.count('hydrogens:isotopic-or-explicit-attached')
    label = repr(str(m))
    try:
        k = m.explicify_hydrogens()
    except ValenceError:
        rec.count('hydrogens:explicify-ValenceError')
        return
    if any(a.implicit_hydrogens for _, a in m.atoms()) or sum(a.atomic_number == 1 for _, a in m.atoms()) != total or \
            k != total - added - sum(a.atomic_number == 1 for _, a in m0.atoms()):
        rec.fail('explicify', f'{label}: {k} hydrogens added, {total} expected in total')
        return
    if dict(m.brutto) != brutto:
        rec.fail('explicify', f'{label}: formula changed {brutto} -> {dict(m.brutto)}')
        return
    if not rederive(m, rec, label + ' after explicify_hydrogens()', 'explicify'):
        return
    try:
        m.implicify_hydrogens()
    except ValenceError:
        rec.count('hydrogens:implicify-ValenceError (documented for hydrogens with coordinate bonds / invalid valence)')
        return
    if dict(m.brutto) != brutto:
        rec.fail('implicify', f'{label}: formula changed by explicify/implicify {brutto} -> {dict(m.brutto)} ({str(m)!r})')
        return
    if not rederive(m, rec, label + ' after implicify_hydrogens()', 'implicify'):
        return
    if m.check_valence():
        rec.fail('implicify', f'{label}: valence errors {m.check_valence()} after implicify_hydrogens()')
        return
    totals(m, rec, label + ' after implicify_hydrogens()')
    rec.count('hydrogens:round-trips')

"""
C07 - substructure search returns exactly the set of valid embeddings.  DESIGN 2/C07.
"""
import itertools
import random as _random

from hypothesis import strategies as st

from .. import molgen
from ..core import hyp_run
from ..oracles import iso, wl

ID = 'C07'
RULE = ('(pattern, target) pairs: target <= 24 atoms (corpus subset, curated, constructive, symmetric constructions, 1-3 components); '
        'pattern = connected or multi-component subgraph cut from the target or from another molecule, as molecule or as query '
        '(QueryElement.from_atom with drawn flags, QueryBond.from_bond with/without ring mark), or one of 46 SMARTS incl. ring '
        'closures and dot-separated components; drawn searching scope; both automorphism-filter settings. oracle: exhaustive '
        'enumeration of injective maps with the library atom/bond __eq__ as leaf predicates and the four stated clauses. '
        'non-trivial = reference set non-empty and pattern has >= 2 atoms; distinct by (pattern, target) strings'
        '; also: metallacycle targets with hybridisation-constrained heavy-atom patterns.')
ASSUMPTIONS = ['leaf semantics of atom/bond equality are C08\'s subject: here the library\'s own __eq__ is the predicate',
               'reference enumerator vf/oracles/iso.py is exponential: targets <= 24 atoms, patterns <= 8 atoms',
               'query patterns use the default matcher configuration (compiled path through the pyx executor); C09 compares the two paths']

SMARTS = ['C', 'N', 'O', 'CC', 'C=O', 'C#N', 'c:c', 'cc', 'C-N', 'C~O', 'C-,=O', 'C!:C', '[N;D1]', '[O;D1;h1]', '[C;D3]', '[C;z2]',
          '[C;z1;x1]', '[A]', '[A;D1]', '[C,N]', '[O,S;D1]', '[#6]', '[#7,#8]', '[C;r6]', '[C;!R]', '[C;a;r5,r6]', 'C1CC1', 'C1CCCCC1',
          'c1ccccc1', 'c1ccncc1', 'C(=O)O', 'C(=O)N', 'CC(C)C', '[N+]', '[O-]', 'C-;@C', 'C-;!@C', 'N.O', 'C=O.N', '[Cl,Br,I]',
          'C[N;h2]', '[C;a]', '[N;a]', 'OCC', 'C1CCC1.C', 'C1CCCC1', 'N1CCCCC1', 'C=CC=C', 'c1ccc2ccccc2c1']


RING_SMARTS = ['C1CC1', 'C1CCC1', 'C1CCCC1', 'C1CCCCC1', 'C1CCCCCC1', 'C1CC2CC12', 'C1CC2CCC12', 'C1CCC2CCCC12', 'C12CC1C2',
               'C1CC1C', 'C1CCC1C', 'C1CCCC1C', 'C1(C)CCCC1', 'C1CC2CC1C2', '[C;r3]1CC1', 'C1C-;@CC1', '[A]1[A][A][A][A]1', '[A]1[A][A][A][A][A]1',
               'C1CC1.C1CCC1']


# rings through elements of the second matcher word (Z > 56): target and the same ring written from different atoms
METALLACYCLES = [('C1CC[Pt]C1', ['[Pt]1CCCC1', 'C1CC[Pt]C1', 'C1C[Pt]CC1', '[Pt]1-;@CCCC1']),
                 ('C1CN[Pt]N1', ['[Pt]1NCCN1', 'N1CCN[Pt]1', 'C1N[Pt]NC1']),
                 ('C1CC[Hg]C1', ['[Hg]1CCCC1', 'C1C[Hg]CC1']),
                 ('C1C[Pb]CC1C', ['[Pb]1CCC(C)C1', 'C1C[Pb]CC1', 'CC1CC[Pb]C1']),
                 ('C1CC[Pt]2(C1)CCCC2', ['[Pt]1CCCC1', 'C1CC[Pt]2(C1)CCCC2', '[Pt]12(CCCC1)CCCC2']),
                 ('C1CC[Sn]C1', ['[Sn]1CCCC1', 'C1C[Sn]CC1']),
                 ('C[Hg]C', ['[Hg;z2]', '[Hg;z1]', 'C[Hg;z3]C', 'C[Hg;z1]C', '[M;z2]', '[M;z1]C']),
                 ('O=[Os](=O)(=O)=O', ['[A;z1]=O', '[Os;z3]=O', '[M;z3]', '[M;z2]=O', 'O=[Os;z1]']),
                 ('C=[Ta](C)(C)C', ['[M;z1]', '[M;z2]', 'C=[Ta;z2]', 'C[Ta;z1]', '[Ta;z1,z2]']),
                 ('C1CC[Pt]C1', ['[Pt;z1]1CCCC1', '[Pt;z2]1CCCC1', 'C1C[Pt;z3]CC1', 'C[Pt;z1]']),
                 ('Cl[Pt]1(Cl)NCCN1', ['[Pt]1NCCN1', 'Cl[Pt]1NCCN1', 'N1CCN[Pt]1(Cl)Cl'])]


def shards(tier, seed):
    n = 900 if tier == 'quick' else 8000
    out = [dict(shard=i, n=n) for i in range(14)]
    out += [dict(kind='lazy', shard=i, n=300 if tier == 'quick' else 3000) for i in range(2)]
    return out


def run_shard(shard, tier, seed):
    if shard.get('kind') == 'lazy':
        strat = st.fixed_dictionaries({'lazy': st.lists(st.lists(st.integers(0, 5), max_size=4), min_size=1, max_size=4)})
        return hyp_run(ID, strat, check_case, max_examples=shard['n'], seed=seed * 1000 + 500 + shard['shard'])
    specs = molgen.mol_specs(max_atoms=12, corpus_w=3, curated_w=3, graph_w=5, literal_w=1, sym_w=4)
    from .c06 import ring_assemblies
    strat = st.fixed_dictionaries({
        'target': st.one_of(specs, specs, ring_assemblies()), 'other': specs,
        'mode': st.sampled_from(['sub-mol', 'sub-mol', 'sub-query', 'sub-query', 'sub-query', 'other-mol', 'other-query', 'smarts',
                                 'smarts', 'multi', 'auto', 'ring-smarts', 'ring-smarts', 'metallacycle']),
        'seed': st.integers(0, 2 ** 31)})
    return hyp_run(ID, strat, check_case, max_examples=shard['n'], seed=seed * 1000 + shard['shard'])


def cut(m, rnd, size):
    """connected atom subset of m grown from a random atom"""
    start = rnd.choice(list(m))
    chosen = [start]
    front = set(m._bonds[start])
    while front and len(chosen) < size:
        n = rnd.choice(sorted(front))
        chosen.append(n)
        front |= set(m._bonds[n])
        front -= set(chosen)
    return chosen


def as_query(m, atoms, rnd):
    from chython import QueryContainer
    from chython.periodictable import QueryElement, AnyElement
    from chython.containers.bonds import QueryBond
    q = QueryContainer('generated')
    for n in atoms:
        a = m.atom(n)
        flags = {k: rnd.random() < .3 for k in ('neighbors', 'hybridization', 'heteroatoms', 'hydrogens', 'ring_sizes')}
        qa = QueryElement.from_atom(a, **flags)
        if rnd.random() < .1:
            any_ = AnyElement(charge=a.charge, is_radical=a.is_radical)
            qa = any_
        q.add_atom(qa, n)
    s = set(atoms)
    for n in atoms:
        for k, b in m._bonds[n].items():
            if k in s and n < k:
                if rnd.random() < .15:
                    q.add_bond(n, k, QueryBond(tuple({b.order, rnd.choice([1, 2, 4])})))
                else:
                    q.add_bond(n, k, QueryBond.from_bond(b, in_ring=rnd.random() < .3))
    return q


def reference(p, t):
    """all injective maps satisfying the four clauses; leaf predicates = library __eq__"""
    pa, ta = p._atoms, t._atoms
    pb, tb = p._bonds, t._bonds
    emb = iso.embeddings(list(pa), {n: set(nb) for n, nb in pb.items()}, set(ta), {n: set(nb) for n, nb in tb.items()},
                         lambda x, y: pa[x] == ta[y], lambda x, k, y, z: pb[x][k] == tb[y][z], limit=50000)
    # pattern components
    comp_of = {}
    for i, c in enumerate(_components(pb)):
        for n in c:
            comp_of[n] = i
    tcomp = {}
    for i, c in enumerate(_components(tb)):
        for n in c:
            tcomp[n] = i
    out = []
    for mp in emb:
        ok = True
        # (3) no additional target bond inside the image of one pattern component
        for x, y in itertools.combinations(pa, 2):
            if comp_of[x] == comp_of[y] and y not in pb[x] and mp[y] in tb[mp[x]]:
                ok = False
                break
        if not ok:
            continue
        # (4) different pattern components in different target components (and one component inside one)
        img = {}
        for n, c in comp_of.items():
            img.setdefault(c, set()).add(tcomp[mp[n]])
        if any(len(v) != 1 for v in img.values()) or len({next(iter(v)) for v in img.values()}) != len(img):
            continue
        out.append(mp)
    return out


def _components(bonds):
    seen, out = set(), []
    for s in bonds:
        if s in seen:
            continue
        c, stack = {s}, [s]
        while stack:
            v = stack.pop()
            for w in bonds[v]:
                if w not in c:
                    c.add(w)
                    stack.append(w)
        seen |= c
        out.append(c)
    return out


def fz(mp):
    return frozenset(mp.items())


def check_case(case, rec):
    if 'lazy' in case:
        return check_lazy(case, rec)
    from chython import smarts, MoleculeContainer
    rnd = _random.Random(case['seed'])
    try:
        if case['mode'] == 'metallacycle':
            from chython import smiles
            tsmi, pats = METALLACYCLES[case['seed'] % len(METALLACYCLES)]
            t = smiles(tsmi)
        else:
            t = molgen.build(case['target'])
    except molgen.Reject as e:
        rec.count(f'generator-reject:{e}')
        return
    if len(t) > 24:
        rec.count('skip:target-too-large')
        return
    mode = case['mode']
    rec.count(f'mode:{mode}')
    if mode == 'auto':
        return check_automorphisms(t, rec)
    try:
        if mode == 'sub-mol':
            p = t.substructure(cut(t, rnd, rnd.randint(1, 8)))
        elif mode == 'sub-query':
            p = as_query(t, cut(t, rnd, rnd.randint(1, 8)), rnd)
        elif mode in ('other-mol', 'other-query'):
            o = molgen.build(case['other'])
            atoms = cut(o, rnd, rnd.randint(1, 6))
            p = o.substructure(atoms) if mode == 'other-mol' else as_query(o, atoms, rnd)
        elif mode == 'smarts':
            p = smarts(SMARTS[case['seed'] % len(SMARTS)])
        elif mode == 'ring-smarts':
            p = smarts(RING_SMARTS[case['seed'] % len(RING_SMARTS)])
        elif mode == 'metallacycle':
            if rnd.random() < .6:
                p = smarts(rnd.choice(pats))
            else:
                atoms = list(t)
                rnd.shuffle(atoms)
                p = as_query(t, atoms, rnd)
        else:  # multi-component pattern from the target (or target + other)
            a1 = cut(t, rnd, rnd.randint(1, 4))
            a2 = cut(t, rnd, rnd.randint(1, 3))
            a2 = [x for x in a2 if x not in a1 and not any(x in t._bonds[y] for y in a1)]
            if not a2:
                rec.count('skip:multi-overlap')
                return
            if rnd.random() < .5:
                p = as_query(t, a1 + a2, rnd)
            else:
                p = t.substructure(a1 + a2)
    except molgen.Reject as e:
        rec.count(f'generator-reject:{e}')
        return
    label = f'pattern {str(p)!r} ({type(p).__name__}, atoms {list(p)}) in target {str(t)!r}'
    try:
        ref = reference(p, t)
    except OverflowError:
        rec.count('skip:reference-budget')
        return
    refset = {fz(mp) for mp in ref}
    # unfiltered
    ok, got = rec.guard('search', lambda: list(p.get_mapping(t, automorphism_filter=False)))
    if not ok:
        return
    gotset = {fz(mp) for mp in got}
    if len(gotset) != len(got):
        rec.fail('duplicates', f'{label}: {len(got)} mappings returned, {len(gotset)} distinct')
        return
    if gotset != refset:
        extra = [dict(x) for x in list(gotset - refset)[:2]]
        miss = [dict(x) for x in list(refset - gotset)[:2]]
        rec.fail('embeddings', f'{label}: {len(gotset)} returned, {len(refset)} valid; spurious {extra}; missing {miss}',
                 sig='spurious' if extra else 'missing')
        return
    if ref and len(p) >= 2:
        rec.nt((str(p), str(t), tuple(p)))
    # filtered
    ok, gotf = rec.guard('search-filtered', lambda: list(p.get_mapping(t, automorphism_filter=True)))
    if not ok:
        return
    images = [frozenset(mp.values()) for mp in gotf]
    if not {fz(mp) for mp in gotf} <= refset or len(set(images)) != len(images) or \
            set(images) != {frozenset(mp.values()) for mp in ref}:
        rec.fail('filter', f'{label}: filtered search returns {len(gotf)} mappings / {len(set(images))} image sets, '
                           f'reference has {len({frozenset(mp.values()) for mp in ref})} image sets')
        return
    # scope
    mode = rnd.random()
    comps = t.connected_components
    if mode < .45:
        scope = [n for n in t if rnd.random() < .6]
    elif mode < .75 and len(comps) > 1:
        # whole components only, never the one holding the lowest atom number first (scope that skips leading components)
        keep = [c for c in comps if rnd.random() < .5] or [comps[-1]]
        scope = [n for c in keep for n in c]
        rec.count('scope:whole-components')
    elif mode < .9:
        scope = cut(t, rnd, rnd.randint(1, max(1, len(t) // 2)))
        rec.count('scope:connected-part')
    else:
        scope = [n for n in t if rnd.random() < .3]
    if scope:
        ok, gots = rec.guard('search-scope', lambda: list(p.get_mapping(t, automorphism_filter=False, searching_scope=scope)))
        if not ok:
            return
        want = {fz(mp) for mp in ref if set(mp.values()) <= set(scope)}
        if {fz(mp) for mp in gots} != want or len(gots) != len(want):
            rec.fail('scope', f'{label}: scope {scope}: {len(gots)} returned, {len(want)} valid inside the scope')
            return
    # operators
    if (p <= t) != bool(ref) or p.is_substructure(t) != bool(ref):
        rec.fail('operators', f'{label}: <= / is_substructure disagree with the embedding set ({len(ref)})', sig='le')
        return
    if (p < t) != (bool(ref) and len(p) < len(t)):
        rec.fail('operators', f'{label}: < disagrees', sig='lt')
        return
    if p.is_equal(t) != (bool(ref) and len(p) == len(t)):
        rec.fail('operators', f'{label}: is_equal disagrees', sig='eq')
        return
    if isinstance(p, MoleculeContainer):
        if (t >= p) != bool(ref) or (t > p) != (bool(ref) and len(p) < len(t)):
            rec.fail('operators', f'{label}: >= / > disagree', sig='ge')
            return
    if ref and len(p) >= 3:
        rec.sample(mode, dict(pattern=str(p), target=str(t), embeddings=len(ref)), cap=4)


def check_automorphisms(t, rec):
    if t.connected_components_count > 1:
        rec.count('skip:auto-multi-component (component exchange is not enumerated by design; not claimed)')
        return
    if len(t) > 16 or any(a.stereo is not None for _, a in t.atoms()) or any(b.stereo is not None for *_, b in t.bonds()):
        rec.count('skip:auto-domain')
        return
    col, adj = wl.constitution(t)
    # the library labels atoms by Morgan class; bonds by order
    try:
        ref = iso.automorphisms(col, adj, limit=3000)
    except OverflowError:
        rec.count('skip:auto-budget')
        return
    want = {fz(mp) for mp in ref if any(k != v for k, v in mp.items())}
    ok, got = rec.guard('automorphisms', lambda: list(t.get_automorphism_mapping()))
    if not ok:
        return
    gs = {fz(mp) for mp in got}
    if gs != want:
        try:
            dom_ok = not wl.local_swap_ok(col, adj) and not wl.gap_b(t, wl.orbits(col, adj))
        except TimeoutError:
            dom_ok = False
        rec.fail('automorphisms', f'{str(t)!r}: {len(gs)} non-identity automorphisms returned, {len(want)} exist',
                 sig='' if dom_ok else 'morgan-heuristic-domain')
        return
    if want:
        rec.nt(('auto', str(t)))
    if t.is_automorphic() != bool(want):
        rec.fail('automorphisms', f'{str(t)!r}: is_automorphic() disagrees')


def check_lazy(case, rec):
    from chython._functions import lazy_product
    lists = case['lazy']
    ok, got = rec.guard('lazy-product', lambda: list(lazy_product(*[iter(x) for x in lists])))
    if not ok:
        return
    want = list(itertools.product(*lists))
    if sorted(got) != sorted(want):
        rec.fail('lazy-product', f'lazy_product{tuple(lists)}: {len(got)} tuples, itertools.product gives {len(want)}; '
                                 f'missing {sorted(set(want) - set(got))[:3]} extra {sorted(set(got) - set(want))[:3]}')
        return
    if len(want) > 1:
        rec.nt(('lazy', tuple(map(tuple, lists))))

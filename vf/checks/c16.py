"""
C16 - template application edits exactly what the template names.  DESIGN 2/C16.
"""
import random as _random
import itertools
from collections import Counter

from hypothesis import strategies as st

from .. import molgen
from ..core import hyp_run, direct_run
from ..oracles import valence_ref

ID = 'C16'
RULE = ('molecule (corpus, curated, constructive; substrate groups grafted so that templates match) x synthetic transformation '
        'templates covering each patcher branch (any-atom reuse, new atoms, deleted atoms with and without a second path, masked '
        'atoms, element/charge/radical/isotope set in the replacement, bond order change, ring forming and opening, '
        'delete_atoms on/off, automorphism filter on/off) and two-reactant Reactor templates with colliding atom numbers and '
        'spectator molecules (one-shot). oracle: a labelled-graph patch model computes the expected product of every match; '
        'products are compared atom-wise, counted, checked for unique numbers, stereo frame condition, identity template, '
        'cage substrates with ring hetero atoms; exhaustive mode (one_shot=False) of the single-pattern reactor template: only template-named elements may change. invariance under renumbering and reactant order. non-trivial = >= 1 match and the template deletes or adds an atom; '
        'distinct by (template, substrate string)'
        '; also: fix_aromatic_rings=False with Kekule inputs: no aromatic product bond.'
        '; also: alkene shard: labelled tri- and tetrasubstituted double bonds carrying the template-named group on an alkene carbon x ten templates x several numberings.')
ASSUMPTIONS = ['the set of matches itself is C07\'s subject: the model patches the matches the library reports and checks their count',
               'model details fixed by the property text: one product per match; unmatched atoms keep all attributes incl. stored '
               'hydrogen count; matched-but-absent unmasked atoms are removed with fragments that lose every path to a kept matched atom',
               'aromatic ring fixing is switched off for the atom-wise comparison (kekule/thiele are C05\'s subject)']

# (pattern, replacement, flags) - atom maps tie pattern and replacement atoms
TEMPLATES = [
    ('[C:1][O;D1:2]', '[A:1]', {}),                          # delete terminal atom
    ('[C:1][O:2]', '[A:1]', {}),                             # delete atom, detach or keep fragment depending on rings
    ('[C:1][N:2]', '[A:1]', {}),
    ('[C:1][O:2]', '[A:1]', {'delete_atoms': False}),        # only the bond disappears
    ('[C:1][O;M:2]', '[A:1]', {}),                           # masked atom is kept
    ('[C:1][Cl,Br,I:2]', '[A:1][O:10]', {}),                    # deleted atom + new atom
    ('[C:1][Cl,Br,I:2]', '[A:1][F:2]', {}),                  # element replaced in place
    ('[C:1][O;D1:2]', '[A:1][A:2]', {}),                     # identity
    ('[C:1]=[C:2]', '[A:1][A:2]', {}),                       # bond order change
    ('[C:1]-[C:2]', '[A:1]=[A:2]', {}),
    ('[C;D2:1]-;!@[C;D2:2]', '[A:1]#[A:2]', {}),
    ('[N;D1:1]', '[N+:1]', {}),                              # charge set by replacement
    ('[O;D1:1][C:2]', '[O-:1][A:2]', {}),
    ('[C:1][O;D1:2]', '[A:1][18O:2]', {}),                   # isotope set
    ('[C;D1:1][C:2]', '[C:1][A:2] |^1:0|', {}),              # radical set
    ('[C:1][C:2][C:3]', '[A:1]1[A:2][A:3]1', {}),            # ring forming
    ('[C:1]1[C:2][C:3]1', '[A:1][A:2][A:3]', {}),            # ring opening (bond 1-3 removed)
    ('[C:1](=[O:2])[O;D1:3]', '[A:1](=[A:2])[N:10]', {}),       # acid -> amide-like: delete + add
    ('[C;a:1][Cl,Br:2]', '[A:1][C:10]#[N:11]', {}),                  # two new atoms
    ('[C:1][N:2]', '[A:1][A:2]', {'automorphism_filter': False}),
    ('[C:1][S:2]', '[A:1]', {}),
    ('[A:1][O;D1;h1:2]', '[A:1][O:2][C:10](=[O:11])[C:12]', {}),      # acetylation: three new atoms
]
REACTOR_TEMPLATES = [
    (('[C:1][Cl,Br:2]', '[O;D1;h1:3][C:4]'), ('[A:1][O:3][A:4]',)),   # ether formation, halide deleted
    (('[C:1](=[O:2])[O;D1:3]', '[N;D1:4][C:5]'), ('[A:1](=[A:2])[N:4][A:5]',)),
    (('[C:1]=[C:2]', '[C:3]=[C:4]'), ('[A:1]1[A:2][A:3][A:4]1',)),   # [2+2]
    (('[C:1][Br:2]',), ('[A:1][O:10]',)),                                # one pattern + spectators, new atom
]
GRAFTS = ['O', 'Cl', 'Br', 'N', 'C(=O)O', 'S', 'C=C', 'CO', 'C1CC1']


def shards(tier, seed):
    n = 400 if tier == 'quick' else 5000
    out = [dict(kind='transformer', shard=i, n=n) for i in range(10)]
    out += [dict(kind='reactor', shard=i, n=n // 2) for i in range(4)]
    out.append(dict(kind='alkenes', n=4 if tier == 'quick' else 40))
    return out


@st.composite
def cage_hetero(draw):
    """fused / spiro / bridged carbon ring assemblies with one or two ring atoms turned into N, O or S: substrates on which the
    atom-deleting templates cut a ring or cage open (fragments reachable through several arms)"""
    from .c06 import ring_assemblies
    g = draw(ring_assemblies())
    deg = {}
    for i, j, _ in g['bonds']:
        deg[i] = deg.get(i, 0) + 1
        deg[j] = deg.get(j, 0) + 1
    atoms = [list(a) for a in g['atoms']]
    for _ in range(draw(st.integers(1, 2))):
        i = draw(st.integers(0, len(atoms) - 1))
        if deg.get(i, 0) <= 2:
            atoms[i][0] = draw(st.sampled_from(['O', 'S', 'N']))
        elif deg[i] == 3:
            atoms[i][0] = 'N'
    return {'k': 'graph', 'atoms': atoms, 'bonds': g['bonds'], 'stereo': []}


# labelled tri- and tetrasubstituted double bonds that carry the group a template names on one of their carbons: the label has to be
# carried through the patch although the neighbour order of the named carbon changes
ALKENES = ['O/C(C)=C(/C)CC', 'O/C(C)=C(\\C)CC', 'Br/C(C)=C(/C)CC', 'Cl/C(C)=C/C', 'C/C(Br)=C(/C)Cl', 'CC/C(O)=C(\\C)/C=C/C',
           'N/C(C)=C(/C)CC', 'OC(=O)/C(C)=C(/C)Br', 'C/C(O)=C1/CCCC1C', 'Br/C(=C(/C)CC)C1CC1', 'S/C(C)=C(/F)C', 'O/C(C)=C(/C)C(/C)=C(/C)O']
ALKENE_TEMPLATES = [0, 2, 5, 6, 7, 11, 13, 17, 20, 21]


def run_shard(shard, tier, seed):
    if shard['kind'] == 'alkenes':
        return direct_run(ID, [{'mol': {'k': 'smi', 's': s}, 'template': t, 'seed': seed * 7919 + 97 * i + 13 * t + j, 'graft': []}
                               for i, s in enumerate(ALKENES) for t in ALKENE_TEMPLATES for j in range(shard['n'])], check_case)
    specs = molgen.mol_specs(max_atoms=10, corpus_w=3, curated_w=2, graph_w=6, literal_w=0, sym_w=2)
    if shard['kind'] == 'transformer':
        strat = st.fixed_dictionaries({'mol': st.one_of(specs, specs, specs, cage_hetero()), 'template': st.integers(0, len(TEMPLATES) - 1), 'seed': st.integers(0, 2 ** 31),
                                       'graft': st.lists(st.integers(0, 2 ** 16), max_size=2)})
    else:
        strat = st.fixed_dictionaries({'mols': st.lists(specs, min_size=1, max_size=3), 'rtemplate': st.integers(0, len(REACTOR_TEMPLATES) - 1),
                                       'seed': st.integers(0, 2 ** 31), 'graft': st.lists(st.integers(0, 2 ** 16), min_size=1, max_size=3)})
    return hyp_run(ID, strat, check_case, max_examples=shard['n'],
                   seed=seed * 1000 + shard['shard'] + (0 if shard['kind'] == 'transformer' else 200))


def graft(m, picks):
    """attach small groups from GRAFTS to atoms with a free valence (through the public API) so that templates find substrates"""
    from chython import smiles
    for p in picks:
        cand = [n for n, a in m.atoms() if (a.implicit_hydrogens or 0) > 0 and a.atomic_number == 6]
        if not cand:
            return
        a = cand[p % len(cand)]
        g = smiles(GRAFTS[(p // 7) % len(GRAFTS)])
        g.kekule()
        first = None
        mp = {}
        for n, at in g.atoms():
            mp[n] = m.add_atom(type(at)(at.isotope, charge=at.charge, is_radical=at.is_radical))
            if first is None:
                first = mp[n]
        for x, y, b in g.bonds():
            m.add_bond(mp[x], mp[y], b.order)
        m.add_bond(a, first, 1)


def plain(m):
    return ({n: [a.atomic_symbol, a.isotope, a.charge, a.is_radical, a.implicit_hydrogens] for n, a in m.atoms()},
            {frozenset((x, y)): b.order for x, y, b in m.bonds()})


def expected(m, pattern, replacement, mapping, delete_atoms):
    """labelled-graph patch model"""
    from chython.periodictable import AnyElement, Element
    atoms, bonds = plain(m)
    adj = {n: set(nb) for n, nb in m._bonds.items()}
    matched = set(mapping.values())
    to_delete = set()
    if delete_atoms:
        to_delete = {mapping[n] for n, a in pattern.atoms() if not a.masked and n not in replacement._atoms}
    remain = matched - to_delete
    # fragments hanging on deleted atoms that have no path (avoiding deleted atoms) to a kept matched atom
    doomed = set(to_delete)
    seen = set()
    for x in to_delete:
        for n in adj[x]:
            if n in seen or n in remain or n in to_delete:
                continue
            comp, stack, reaches = {n}, [n], False
            while stack:
                v = stack.pop()
                for w in adj[v]:
                    if w in to_delete or w in comp:
                        continue
                    if w in remain:
                        reaches = True
                        continue
                    comp.add(w)
                    stack.append(w)
            seen |= comp
            if not reaches:
                doomed |= comp
    new_atoms = {n: list(v) for n, v in atoms.items() if n not in doomed}
    new_bonds = {e: o for e, o in bonds.items() if not (e & doomed)}
    mp = dict(mapping)
    nxt = max(atoms) + 1
    patched = set()
    for n, ra in replacement.atoms():
        if isinstance(ra, AnyElement):
            k = mp[n]
            new_atoms[k] = [atoms[k][0], atoms[k][1], ra.charge, ra.is_radical, None]
        else:
            sym = Element.from_atomic_number(ra.atomic_number).__name__
            if n in mp:
                k = mp[n]
            else:
                k = mp[n] = nxt
                nxt += 1
            h = None
            if n not in mapping and ra.implicit_hydrogens:
                h = ra.implicit_hydrogens[0]
            new_atoms[k] = [sym, ra.isotope, ra.charge, ra.is_radical, h]
        patched.add(k)
    # bonds inside the patched set are exactly the replacement bonds
    new_bonds = {e: o for e, o in new_bonds.items() if not e <= patched}
    for x, y, b in replacement.bonds():
        new_bonds[frozenset((mp[x], mp[y]))] = b.order[0]
    return new_atoms, new_bonds, patched


def compare_product(prod, exp_atoms, exp_bonds, patched, rec, label):
    atoms, bonds = plain(prod)
    if set(atoms) != set(exp_atoms):
        rec.fail('product-atoms', f'{label}: product atoms {sorted(atoms)} expected {sorted(exp_atoms)} '
                                  f'(extra {sorted(set(atoms) - set(exp_atoms))}, missing {sorted(set(exp_atoms) - set(atoms))})',
                 sig='extra' if set(atoms) - set(exp_atoms) else 'missing')
        return False
    if bonds != exp_bonds:
        d = {tuple(sorted(e)): (bonds.get(e), exp_bonds.get(e)) for e in set(bonds) | set(exp_bonds) if bonds.get(e) != exp_bonds.get(e)}
        rec.fail('product-bonds', f'{label}: bonds (got, expected) {dict(list(d.items())[:4])}')
        return False
    for n, want in exp_atoms.items():
        got = atoms[n]
        if got[:4] != want[:4]:
            rec.fail('product-atom', f'{label}: atom {n} is {got[:4]}, expected {want[:4]} (element, isotope, charge, radical)',
                     sig='patched' if n in patched else 'untouched')
            return False
        if n in patched:
            h = want[4]
            if h is None:
                h = valence_ref.implicit_h(prod.atom(n), valence_ref.atom_neighbours(prod, n))
            if got[4] != h:
                rec.fail('product-atom', f'{label}: patched atom {n} has {got[4]} hydrogens, valence rules / template give {h}',
                         sig='patched-H')
                return False
        elif got[4] != want[4]:
            rec.fail('product-atom', f'{label}: untouched atom {n} changed its hydrogen count {want[4]} -> {got[4]}', sig='untouched-H')
            return False
    return True


def check_case(case, rec):
    if 'rtemplate' in case:
        return check_reactor(case, rec)
    from chython import smarts
    from chython.reactor import Transformer
    try:
        m = molgen.build_kekule(case['mol'])
    except molgen.Reject as e:
        rec.count(f'generator-reject:{e}')
        return
    m = m.copy()
    graft(m, case['graft'])
    if m.check_valence() or len(m) > 40:
        rec.count('generator-reject:valence after grafting / size')
        return
    if any(b.order == 8 for *_, b in m.bonds()):
        rec.count('skip:coordinate bonds (fragment bookkeeping through special bonds is not specified)')
        return
    ps, rs, flags = TEMPLATES[case['template']]
    pattern, repl = smarts(ps), smarts(rs)
    kw = dict(delete_atoms=flags.get('delete_atoms', True), automorphism_filter=flags.get('automorphism_filter', True),
              fix_aromatic_rings=False)
    label = f'template {ps}>>{rs} {flags} on {format(m, "m")!r}'
    ok, t = rec.guard('template', Transformer, pattern, repl, **kw)
    if not ok:
        return
    ok, prods = rec.guard('apply', lambda: list(t(m)))
    if not ok:
        return
    snapshot_before = plain(m)
    matches = list(pattern.get_mapping(m, automorphism_filter=kw['automorphism_filter']))
    rec.count(f'template:{case["template"]}')
    if len(prods) != len(matches):
        rec.fail('one-product-per-match', f'{label}: {len(matches)} matches, {len(prods)} products')
        return
    if plain(m) != snapshot_before:
        rec.fail('input-mutated', f'{label}: applying the template changed the input molecule')
        return
    adds = any(n not in pattern._atoms for n in repl._atoms)
    dels = any(n not in repl._atoms for n in pattern._atoms)
    if matches and (adds or dels):
        rec.nt((case['template'], str(m)))
    for mapping, prod in zip(matches, prods):
        ea, eb, patched = expected(m, pattern, repl, mapping, kw['delete_atoms'])
        if not compare_product(prod, ea, eb, patched, rec, label + f' match {mapping}'):
            return
        # stereo frame condition: labelled centres whose neighbourhood is untouched keep their configuration
        keep = {n for n in prod if n in m._atoms and n not in patched and set(m._bonds[n]) == set(prod._bonds[n])
                and not (set(m._bonds[n]) & patched)}
        for n in keep:
            if m.atom(n).stereo is not None and n in m.stereogenic_tetrahedrons and n in prod.stereogenic_tetrahedrons and \
                    prod.atom(n).stereo is not None:
                env = m.stereogenic_tetrahedrons[n]
                if prod._translate_tetrahedron_sign(n, env) != m._translate_tetrahedron_sign(n, env):
                    rec.fail('stereo-frame', f'{label}: untouched centre {n} changed its configuration')
                    return
    if rs.replace('[A:', '[X:') and ps == '[C:1][O;D1:2]' and rs == '[A:1][A:2]':
        for prod in prods:
            if plain(prod) != snapshot_before:
                rec.fail('identity', f'{label}: identity template changed the molecule to {str(prod)!r}')
                return
    # renumbering: the multiset of product strings does not depend on reactant numbering
    # (with the automorphism filter the representative of an image set is unspecified, so the full match set is used)
    if matches and len(matches) <= 12:
        r, mp, left = molgen.rebuild(m, case['seed'], max_number=900)
        if not left and molgen.map_snapshot(molgen.snapshot(m), mp) == molgen.snapshot(r):
            tf = Transformer(pattern, repl, delete_atoms=kw['delete_atoms'], automorphism_filter=False, fix_aromatic_rings=False)
            ok, prods1 = rec.guard('apply', lambda: list(tf(m)))
            ok2, prods2 = rec.guard('apply', lambda: list(tf(r)))
            if ok and ok2 and len(prods1) <= 60 and any(p.check_valence() for p in prods1 + prods2):
                rec.count('renumbering clause skipped: the template makes valence-invalid products (labels on such atoms are undefined)')
            elif ok and ok2 and len(prods1) <= 60:
                ca, cb = {_canon(p): p for p in prods1}, {_canon(p): p for p in prods2}
                a, b = set(ca), set(cb)
                # canonical strings are compared: products (or the substrate) inside a C01 gap / known finding are not judged
                if a != b and not _gap([m] + [ca[k] for k in a - b] + [cb[k] for k in b - a]):
                    rec.fail('renumbering', f'{label}: product set changes under renumbering: {sorted(a)[:3]} vs {sorted(b)[:3]}')
                    return
    # with ring fixing: products must still be well formed
    ok, t2 = rec.guard('template', Transformer, pattern, repl, delete_atoms=kw['delete_atoms'])
    if ok:
        ok, prods3 = rec.guard('apply-fix-rings', lambda: list(t2(m)))
        if ok and len(prods3) != len(prods):
            rec.fail('one-product-per-match', f'{label}: product count differs with aromatic ring fixing')
            return
    if prods:
        rec.sample(f'template-{case["template"]}', dict(template=f'{ps}>>{rs}', substrate=str(m), products=[str(p) for p in prods[:3]]),
                   cap=2)


def _canon(p):
    c = p.copy()
    try:
        c.kekule()
        c.thiele()
    except Exception:
        pass
    return str(c)


def _gap(mols):
    from ..oracles import wl
    for m in mols[:14]:
        try:
            col, adj = wl.constitution(m)
            orb = wl.orbits(col, adj)
            if wl.local_swap_ok(col, adj) or wl.gap_b(m, orb) or wl.gap_a(m, orb) or wl.odd_label_orbit(m, orb) or \
                    wl.annulene_stereo(m):
                return True
            # canonical strings are taken after kekule()+thiele(): where the minimum cycle basis is not unique the aromatic form
            # depends on atom order (C05 known finding)
            from ..oracles import mcb
            try:
                if not mcb.analyse(mcb.mol_adj(m))['unique'] and any(b.order in (2, 4) and b.in_ring for *_, b in m.bonds()):
                    return True
            except OverflowError:
                return True
        except TimeoutError:
            return True
    return False


def check_reactor(case, rec):
    from chython import smarts
    from chython.reactor import Reactor
    pats, prods_t = REACTOR_TEMPLATES[case['rtemplate']]
    mols = []
    for spec, g in zip(case['mols'], case['graft'] + [0, 0, 0]):
        try:
            m = molgen.build_kekule(spec).copy()
        except molgen.Reject as e:
            rec.count(f'generator-reject:{e}')
            continue
        graft(m, [g, g // 3])
        if m.check_valence() or len(m) > 30:
            continue
        m.clean_stereo()
        mols.append(m)
    if len(mols) < len(pats):
        rec.count('skip:not enough reactants')
        return
    # all reactants numbered from 1: colliding numbers
    label = f'reactor {pats}>>{prods_t} on {[str(m) for m in mols]}'
    ok, reactor = rec.guard('template', Reactor, tuple(smarts(p) for p in pats), tuple(smarts(p) for p in prods_t),
                            fix_aromatic_rings=False)
    if not ok:
        return
    ok, rxns = rec.guard('apply', lambda: list(reactor(*mols)))
    if not ok:
        return
    rec.count(f'reactor-template:{case["rtemplate"]}:{"spectators" if len(mols) > len(pats) else "exact"}')
    if rxns:
        rec.nt((case['rtemplate'], tuple(str(m) for m in mols)))
    total_in = sum(len(m) for m in mols)
    # fix_aromatic_rings=False was requested and the inputs are Kekule forms: no product bond may have become aromatic
    if not any(b.order == 4 for x in mols for *_, b in x.bonds()):
        for r in rxns:
            if any(b.order == 4 for p in r.products for *_, b in p.bonds()):
                rec.fail('ring-fixing-option', f'{label}: fix_aromatic_rings=False, Kekule inputs, but a product has aromatic bonds: {str(r)!r}')
                return
    for r in rxns:
        nums = [n for p in r.products for n in p]
        if len(nums) != len(set(nums)):
            dup = [n for n, c in Counter(nums).items() if c > 1]
            rec.fail('unique-numbers', f'{label}: atom numbers {dup} used twice on the product side {[sorted(p) for p in r.products]}')
            return
        rn = [n for p in r.reactants for n in p]
        if len(rn) != len(set(rn)) or len(rn) != total_in:
            rec.fail('unique-numbers', f'{label}: reactant side has {len(rn)} atoms / {len(set(rn))} numbers for {total_in} input atoms',
                     sig='reactants')
            return
        if sorted(_canon(x) for x in r.reactants) != sorted(_canon(x) for x in mols) and not _gap(mols):
            rec.fail('reactants-kept', f'{label}: reactant side differs from the input molecules')
            return
        # atoms the template does not name keep their numbers and attributes
        src = {}
        for x in r.reactants:
            for n, a in x.atoms():
                src[n] = (a.atomic_symbol, a.isotope)
        for p in r.products:
            for n, a in p.atoms():
                if n in src and src[n] != (a.atomic_symbol, a.isotope) and case['rtemplate'] != 99:
                    rec.fail('untouched-identity', f'{label}: atom {n} changed element {src[n]} -> {a.atomic_symbol}')
                    return
    # reactant order does not change the product set
    if len(mols) > 1 and len(rxns) <= 20:
        ok, rx2 = rec.guard('apply', lambda: list(reactor(*mols[::-1])))
        if ok:
            ka = {tuple(sorted(_canon(p) for p in r.products)): r for r in rxns}
            kb = {tuple(sorted(_canon(p) for p in r.products)): r for r in rx2}
            a, b = set(ka), set(kb)
            if a != b and not _gap([p for k in a - b for p in ka[k].products] + [p for k in b - a for p in kb[k].products]):
                rec.fail('reactant-order', f'{label}: product sets differ for reversed reactant order: {sorted(a)[:2]} vs {sorted(b)[:2]}')
                return
    # exhaustive mode (one_shot=False): every reaction produced, at whatever stage, may differ from its reactant side only by the
    # atoms the template deletes or adds; atoms (and whole molecules) the template never names must not disappear
    # (single-pattern templates only: with several patterns a reactant may legitimately be consumed twice - polymerisation - while
    # the reaction lists it once).  A copy of the first molecule is added so that structurally identical products occur.
    LOST = {3: {'Br'}}
    ADDED = {3: {'O'}}
    if case['rtemplate'] in LOST and sum(len(x) for x in mols) <= 30:
        ok, ex = rec.guard('template', Reactor, tuple(smarts(p) for p in pats), tuple(smarts(p) for p in prods_t),
                           fix_aromatic_rings=False, one_shot=False, polymerise_limit=3)
        if ok:
            first = mols[0].copy()
            if sum(a.atomic_symbol == 'Br' for _, a in first.atoms()) < 2:
                try:  # two reactive sites: an intermediate of one copy can coincide with the other copy and still react
                    graft(first, [7 * GRAFTS.index('Br'), 7 * GRAFTS.index('Br') + 63])
                except Exception:
                    pass
            twice = [first] + list(mols[1:]) + [first.copy()]
            ok, many = rec.guard('apply-exhaustive', lambda: list(itertools.islice(ex(*twice), 60)))
            if ok:
                rec.count('reactor-exhaustive-runs')
                for r in many:
                    rc = Counter(a.atomic_symbol for x in r.reactants for _, a in x.atoms() if a.atomic_number != 1)
                    pc = Counter(a.atomic_symbol for x in r.products for _, a in x.atoms() if a.atomic_number != 1)
                    lost, added = rc - pc, pc - rc
                    if set(lost) - LOST[case['rtemplate']] or set(added) - ADDED[case['rtemplate']]:
                        rec.fail('exhaustive-conservation', f'{label} (one_shot=False): reaction {str(r)!r} loses {dict(lost)} and gains '
                                                            f'{dict(added)}; the template only deletes {sorted(LOST[case["rtemplate"]])} and adds '
                                                            f'{sorted(ADDED[case["rtemplate"]])}')
                        return
                    if sorted(n for x in r.products for n in x) != sorted(set(n for x in r.products for n in x)):
                        rec.fail('unique-numbers', f'{label} (one_shot=False): duplicate atom numbers on the product side of {str(r)!r}')
                        return
    if rxns:
        rec.sample(f'reactor-{case["rtemplate"]}', str(rxns[0]), cap=3)

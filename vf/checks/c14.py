"""
C14 - normalisation conserves composition, is idempotent and numbering independent.  DESIGN 2/C14.
"""
import ast
import functools
import glob
import os
from collections import Counter

from hypothesis import strategies as st

from .. import molgen
from ..boot import REPO
from ..core import hyp_run, direct_run

ID = 'C14'
RULE = ('valence-valid molecules (corpus, curated, literals, constructive, symmetric; with functional groups of the documented '
        'rule spellings grafted in) under a drawn rebuild/renumbering x operations {standardize, canonicalize, fix_resonance, '
        'neutralize, standardize_charges, explicify/implicify, enumerate_tautomers (<= 50)}: heavy-atom multiset, net charge, '
        'hydrogen count (neutralize: charge and H change by the same number), no valence error, no exception, idempotence, '
        'explicify/implicify inverse, op(R(x)) == R(op(x)) with tautomer fixing off (on for corpus molecules), tautomer set '
        'numbering independent / containing the input / pairwise distinct / constant formula. plus every documented '
        '(spelling, canonical spelling) pair of the repository\'s rule tests, also under renumbering, with the rule indices that '
        'every operation also on an object whose derived values were read before; geminal double instances of documented spellings; canonicalize(keep_kekule=True). fired recorded. non-trivial = the operation changed the molecule; distinct by (operation, canonical string)'
        '; also: drawn operation order (enumeration before neutralize in one interpreter); curated neutral acid / anion salts.')
ASSUMPTIONS = ['documented spellings = the (input, output) literals of chython/algorithms/standardize/test/test_groups.py and the tautomer '
               'tests, read with ast (never imported)',
               'numbering independence is compared by canonical strings; molecules in C01 gaps / known findings are skipped for that clause',
               'recorded gap (property text): hetero-arene tautomer fixing may pick among equivalent tautomers by match order, so '
               'tautomer fixing is on only for corpus molecules in the renumbering clause']

OPS = ['standardize', 'canonicalize', 'canonicalize_kekule', 'fix_resonance', 'neutralize', 'standardize_charges', 'hydrogens', 'tautomers']


def shards(tier, seed):
    n = 140 if tier == 'quick' else 2500
    out = [dict(kind='mol', shard=i, n=n) for i in range(12)]
    out += [dict(kind='pairs', part=i, parts=4) for i in range(4)]
    out += [dict(kind='curated', part=i, parts=4) for i in range(4)]  # every curated molecule with every operation
    return out


@functools.lru_cache(None)
def documented_pairs():
    pairs = []
    for p in sorted(glob.glob(os.path.join(REPO, 'chython', 'algorithms', 'standardize', 'test', 'test_*.py'))):
        tree = ast.parse(open(p).read())
        for node in ast.walk(tree):
            if isinstance(node, ast.Assign) and isinstance(node.value, ast.List):
                for el in node.value.elts:
                    if isinstance(el, ast.Tuple) and len(el.elts) == 2 and all(isinstance(x, ast.Constant) and
                                                                               isinstance(x.value, str) for x in el.elts):
                        pairs.append((el.elts[0].value, el.elts[1].value))
    return tuple(pairs)


def run_shard(shard, tier, seed):
    if shard['kind'] == 'pairs':
        ps = documented_pairs()
        return direct_run(ID, [{'pair': list(p)} for i, p in enumerate(ps) if i % shard['parts'] == shard['part']], check_case)
    if shard['kind'] == 'curated':
        cur = molgen.curated()
        cases = [{'mol': {'k': 'smi', 's': x}, 'graft': [], 'seed': seed * 31 + i, 'ops': OPS}
                 for i, x in enumerate(cur) if i % shard['parts'] == shard['part']]
        return direct_run(ID, cases, check_case)
    strat = st.fixed_dictionaries({'mol': molgen.mol_specs(max_atoms=12, corpus_w=6, curated_w=4, graph_w=4, literal_w=0, sym_w=1),
                                   'graft': st.lists(st.integers(0, 2 ** 16), max_size=3), 'seed': st.integers(0, 2 ** 31),
                                   'ops': st.lists(st.sampled_from(OPS), min_size=2, max_size=3, unique=True)})
    return hyp_run(ID, strat, check_case, max_examples=shard['n'], seed=seed * 1000 + shard['shard'])


def composition(m):
    heavy = Counter((a.atomic_symbol, a.isotope) for _, a in m.atoms() if a.atomic_number != 1)
    h = sum((a.implicit_hydrogens or 0) for _, a in m.atoms()) + sum(1 for _, a in m.atoms() if a.atomic_number == 1)
    return heavy, int(m), h


def canon(m):
    c = m.copy()
    c.kekule()
    c.implicify_hydrogens()
    c.thiele(fix_tautomers=False)
    return str(c)


def in_gap(m):
    from ..oracles import wl
    try:
        col, adj = wl.constitution(m)
        orb = wl.orbits(col, adj)
        return wl.gap_a(m, orb) or wl.gap_b(m, orb) or bool(wl.local_swap_ok(col, adj)) or wl.odd_label_orbit(m, orb) or \
            wl.annulene_stereo(m)
    except TimeoutError:
        return True


def apply(op, m, fix_tautomers):
    """returns 'changed' flag as reported by the library"""
    if op == 'standardize':
        return m.standardize(fix_tautomers=fix_tautomers)
    if op == 'canonicalize':
        return m.canonicalize(fix_tautomers=fix_tautomers)
    if op == 'canonicalize_kekule':
        return m.canonicalize(fix_tautomers=fix_tautomers, keep_kekule=True)
    if op == 'fix_resonance':
        return m.fix_resonance()
    if op == 'neutralize':
        return m.neutralize()
    if op == 'standardize_charges':
        return m.standardize_charges()
    raise ValueError(op)


def graft_groups(m, picks):
    """attach the input spelling of a documented pair (small ones) to a carbon with a free valence"""
    from chython import smiles
    pairs = [p for p in documented_pairs() if len(p[0]) <= 14 and '.' not in p[0] and '~' not in p[0]]
    last = None  # (pair index, atom of the molecule that carries the previous copy's group)
    kinds = []
    for p in picks:
        if last is not None and p % 3 == 0:
            # geminal instance: a second copy of the previous group on the same carrier atom (two matches of one rule that share
            # their generic substituent atom)
            idx, carrier = last
            g = smiles(pairs[idx][0])
            site = [n for n, a in g.atoms() if a.atomic_number == 6 and (a.implicit_hydrogens or 0) > 0]
            if site and (m.atom(carrier).implicit_hydrogens or 0) > 0 and len(g._bonds[site[0]]) == 1 and \
                    all(b.order == 1 for b in g._bonds[site[0]].values()):
                kinds.append(shared_atom_kind(g, site[0]))
                mp = {site[0]: carrier}
                for n, at in g.atoms():
                    if n != site[0]:
                        mp[n] = m.add_atom(type(at)(at.isotope, charge=at.charge, is_radical=at.is_radical))
                for x, y, b in g.bonds():
                    m.add_bond(mp[x], mp[y], b.order)
                continue
        cand = [n for n, a in m.atoms() if (a.implicit_hydrogens or 0) > 0 and a.atomic_number == 6 and a.hybridization == 1]
        if not cand or not pairs:
            return
        try:
            g = smiles(pairs[p % len(pairs)][0])
        except Exception:
            continue
        site = [n for n, a in g.atoms() if a.atomic_number == 6 and (a.implicit_hydrogens or 0) > 0]
        if not site:
            continue
        mp = {}
        for n, at in g.atoms():
            mp[n] = m.add_atom(type(at)(at.isotope, charge=at.charge, is_radical=at.is_radical))
        for x, y, b in g.bonds():
            m.add_bond(mp[x], mp[y], b.order)
        m.add_bond(cand[p % len(cand)], mp[site[0]], 1)
        last = (p % len(pairs), mp[site[0]])
    return kinds


def shared_atom_kind(g, site):
    """role of the carrier atom in the rule that rewrites the documented spelling g, read from the rule tables (data): 'any' - it is
    a generic substituent atom of the pattern (the tables say such atoms may be shared by several matches), 'named' - it is a
    specific pattern atom (matches sharing it are processed one per call: "skip intersected groups"), 'outside' - not matched"""
    from chython.algorithms.standardize import _groups
    kind = 'outside'
    for rules in (_groups.double_rules, _groups.single_rules):
        for pattern, atom_fix, bonds_fix, any_atoms, is_tautomer in rules:
            for mapping in pattern.get_mapping(g, automorphism_filter=False):
                for pa, ma in mapping.items():
                    if ma == site:
                        if pa in any_atoms:
                            kind = 'any' if kind != 'named' else kind
                        else:
                            kind = 'named'
    return kind


def check_case(case, rec):
    if 'pair' in case:
        return check_pair(case, rec)
    try:
        m = molgen.build_kekule(case['mol']).copy()
    except molgen.Reject as e:
        rec.count(f'generator-reject:{e}')
        return
    grafted = False
    geminal = []
    if case['graft']:
        try:
            geminal = graft_groups(m, case['graft']) or []
            grafted = True
            for k in geminal:
                rec.count(f'geminal-graft:carrier-is-{k}-atom-of-the-rule')
        except Exception:
            rec.count('generator-reject:graft')
            return
    # a molecule carrying a grafted documented spelling counts as a (possibly mis-spelt) rule instance: the rule tables may
    # correct its hydrogens/charges on purpose, so composition clauses beyond the heavy atoms are not asserted for it
    valid = not m.check_valence() and not grafted
    if case['mol']['k'] == 'graph' and not case['mol'].get('ringsys') and any(
            (a.charge and ((a.implicit_hydrogens or 0) > 0 or a.atomic_number == 6 or
                           (a.charge > 0 and a.atomic_number not in (7, 15)))) or a.is_radical for _, a in m.atoms()):
        # the rule tables rewrite many hydrogen-bearing ions on purpose (they read them as mis-spelt neutral groups):
        # the constructive generator is restricted to ions without hydrogens (ammonium, carboxylate, N-oxide ...), no carbon ions
        rec.count('generator-reject:exotic ion/radical of the constructive generator')
        return
    if len(m) > 45:
        rec.count('skip:large')
        return
    if not valid and not grafted:
        rec.count('generator-reject:valence invalid')
        return
    corpus = case['mol']['k'] == 'corpus' and not grafted
    comp0 = composition(m)
    s0 = format(m, 'm')
    r, mp, left = molgen.rebuild(m, case['seed'], max_number=900)
    comparable = not left and molgen.map_snapshot(molgen.snapshot(m), mp) == molgen.snapshot(r)
    for op in case['ops']:
        label = f'{op} on {s0!r}'
        rec.count(f'op:{op}{"" if valid else " (valence-invalid spelling)"}')
        if op == 'hydrogens':
            if not valid:
                continue
            x = m.copy()
            ok, added = rec.guard('explicify', x.explicify_hydrogens)
            if not ok:
                return
            if added != comp0[2] - sum(1 for _, a in m.atoms() if a.atomic_number == 1) or composition(x) != comp0 or \
                    any(a.implicit_hydrogens for _, a in x.atoms()):
                rec.fail('explicify', f'{label}: {added} hydrogens added, composition {composition(x)} vs {comp0}')
                return
            ok, removed = rec.guard('implicify', x.implicify_hydrogens)
            if not ok:
                return
            if composition(x) != comp0 or molgen.snapshot(x) != molgen.snapshot(implicit_only(m)) and not any(
                    a.atomic_number == 1 for _, a in m.atoms()):
                rec.fail('implicify-inverse', f'{label}: implicify(explicify(x)) = {str(x)!r} differs from x')
                return
            if added:
                rec.nt(('hydrogens', str(m)))
            continue
        if op == 'tautomers':
            if not valid:
                continue
            ok, ts = rec.guard('tautomers', lambda: list(m.enumerate_tautomers(limit=50)))
            if not ok:
                return
            strs = [str(t) for t in ts]
            if len(set(strs)) != len(strs):
                rec.fail('tautomers-distinct', f'{label}: repeated tautomer {[s for s, c in Counter(strs).items() if c > 1][:2]}')
                return
            for t in ts:
                if composition(t) != comp0 and not any(a.atomic_number == 1 for _, a in m.atoms()):
                    rec.fail('tautomers-composition', f'{label}: tautomer {str(t)!r} has composition {composition(t)} vs {comp0}')
                    return
                if t.check_valence():
                    rec.fail('tautomers-valence', f'{label}: tautomer {str(t)!r} has a valence error')
                    return
            if canon(m) not in {canon(t) for t in ts}:
                rec.fail('tautomers-contain-input', f'{label}: the input form is not among the enumerated tautomers')
                return
            if comparable and len(ts) < 50 and not in_gap(m):
                # recorded gap: hetero-arene tautomers are chosen by match order -> compare the keto-enol / zwitter part only
                ok, ts1 = rec.guard('tautomers', lambda: list(m.enumerate_tautomers(limit=50, heteroarenes=False)))
                ok2, ts2 = rec.guard('tautomers', lambda: list(r.enumerate_tautomers(limit=50, heteroarenes=False)))
                if ok and ok2 and len(ts1) < 50 and {canon(t) for t in ts1} != {canon(t) for t in ts2} and len(ts2) < 50:
                    if not any(in_gap(t) for t in ts[:8]):
                        # tautomeric sites: hetero atoms double bonded to carbon, or carrying hydrogen on an sp2 carbon
                        groups = sum(1 for n, a in m.atoms() if a.atomic_number in (7, 8, 16) and (
                            any(b.order == 2 and m.atom(k).atomic_number == 6 for k, b in m._bonds[n].items()) or
                            (a.implicit_hydrogens and any(m.atom(k).atomic_number == 6 and m.atom(k).hybridization == 2
                                                          for k in m._bonds[n]))))
                        rec.fail('tautomers-numbering', f'{label}: keto-enol tautomer set depends on atom numbering '
                                                        f'({len(ts1)} vs {len(ts2)} forms, {groups} tautomeric sites)',
                                 sig='several-C=X-groups' if groups >= 2 else 'single-group')
                        return
            if len(ts) > 1:
                rec.nt(('tautomers', str(m)))
            continue
        ft = corpus
        x = m.copy()
        if not valid:
            # documented mis-spellings (valence errors, aromatic bonds outside rings): an operation may refuse them
            from chython.exceptions import InvalidAromaticRing, ValenceError
            try:
                changed = apply(op, x, ft)
            except (InvalidAromaticRing, ValenceError):
                rec.count(f'op:{op} refused a valence-invalid spelling (allowed)')
                continue
        else:
            ok, changed = rec.guard(op, apply, op, x, ft)
            if not ok:
                return
        c1 = composition(x)
        if c1[0] != comp0[0]:
            rec.fail('heavy-atoms', f'{label}: heavy atoms changed -> {str(x)!r}', sig=op)
            return
        if valid:
            if op == 'neutralize':
                if c1[1] - comp0[1] != c1[2] - comp0[2]:
                    rec.fail('neutralize-balance', f'{label}: charge {comp0[1]} -> {c1[1]}, hydrogens {comp0[2]} -> {c1[2]}')
                    return
            elif c1[1:] != comp0[1:]:
                rec.fail('charge-hydrogens', f'{label}: (charge, H) {comp0[1:]} -> {c1[1:]} in {str(x)!r}',
                         sig=f'{op}:{fired_rules(m)}')
                return
            if x.check_valence():
                rec.fail('valence-after', f'{label}: valence error on atoms {x.check_valence()} of {str(x)!r}', sig=op)
                return
            if not any(b.order == 4 for *_, b in x.bonds()):
                # stored hydrogen counts must be states of the element tables for the bonds the atom has now (check_valence only
                # looks for undefined counts)
                from ..oracles import valence_ref
                for n, a in x.atoms():
                    if a.implicit_hydrogens not in valence_ref.implicit_h_all(a, valence_ref.atom_neighbours(x, n)):
                        rec.fail('valence-after', f'{label}: atom {n} ({a.atomic_symbol}, charge {a.charge}) of {str(x)!r} keeps '
                                                  f'{a.implicit_hydrogens} hydrogens, not a state of the element tables for its bonds',
                                 sig=f'{op}:stored-H')
                        return
            if op == 'canonicalize_kekule':
                # the Kekule result must be a Kekule form of the default result
                y0, z0 = m.copy(), x.copy()
                ok, _ = rec.guard(op, lambda: (y0.canonicalize(fix_tautomers=ft), z0.thiele(fix_tautomers=False)))
                if ok and molgen.snapshot(y0) != molgen.snapshot(z0) and canon_safe(y0) != canon_safe(z0) and not in_gap(y0):
                    rec.fail('keep-kekule', f'{label}: canonicalize(keep_kekule=True) then thiele() gives {str(z0)!r}, canonicalize() '
                                            f'gives {str(y0)!r}')
                    return
        if changed:
            rec.nt((op, str(x)))
        # the result must not depend on derived values read before the call (caches of the state before the operation)
        xw = m.copy()
        try:
            str(xw), hash(xw), xw.atoms_order, xw.sssr, xw.smiles_atoms_order
        except Exception:
            pass
        if valid:
            okw, _ = rec.guard(op, apply, op, xw, ft)
            if okw and molgen.snapshot(xw) != molgen.snapshot(x) and canon_safe(xw) != canon_safe(x):
                rec.fail('warm-caches', f'{label}: result {str(xw)!r} when str/atoms_order/sssr were read before the call, {str(x)!r} on a '
                                        f'fresh copy', sig=op)
                return
        # idempotence
        y = x.copy()
        ok, changed2 = rec.guard(op, apply, op, y, ft)
        if not ok:
            return
        if 'named' in geminal and op in ('standardize', 'canonicalize', 'canonicalize_kekule') and molgen.snapshot(y) != molgen.snapshot(x):
            # two matches of one rule share a specific pattern atom: the rule loop handles one of them per call by design
            # ("skip intersected groups"); claimed instead: repeated application reaches a fixed point
            prev, w = y, y.copy()
            for _k in range(len(geminal) + 2):  # one overlapping instance per call
                ok, _ = rec.guard(op, apply, op, w, ft)
                if not ok or molgen.snapshot(w) == molgen.snapshot(prev) or canon_safe(w) == canon_safe(prev):
                    break
                prev, w = w, w.copy()
            else:
                rec.fail('idempotent', f'{label}: no fixed point after {len(geminal) + 4} applications: {str(x)!r} -> ... -> {str(w)!r}',
                         sig='no-fixed-point')
                return
            rec.count('overlapping matches sharing a named atom: fixed point after repeated application (idempotence of one call not claimed)')
            continue
        if molgen.snapshot(y) != molgen.snapshot(x) and (canon_safe(y) != canon_safe(x) or in_gap(x)) and not in_gap(x):
            sig = 'vicinal-N-oxides' if vicinal_n_oxides(x) else ('two-donor-cation' if two_donor_cation(x) else op)
            if sig == op and op in ('standardize', 'canonicalize', 'canonicalize_kekule') and (grafted or fired_rules(m) not in ('', '?')):
                # (a group rule fired in the first call: grafted spelling, or a generated molecule that happens to contain one)
                # standardize() runs the resonance fixer first and the group rules second: a documented mis-spelling whose rewritten
                # form is a cation/anion pair in conjugation is only neutralised by the fixer of the next call
                probe, probe0 = x.copy(), m.copy()
                try:
                    # the input itself must be stable under the fixer (for generated molecules): the instability is the rule's product
                    if (grafted or not probe0.fix_resonance()) and probe.fix_resonance():
                        sig = 'resonance-after-rules'
                except Exception:
                    pass
            rec.fail('idempotent', f'{label}: second application changes {str(x)!r} -> {str(y)!r}', sig=sig)
            return
        # numbering independence
        if comparable:
            z = r.copy()
            ok, _ = rec.guard(op, apply, op, z, ft)
            if ok and canon_safe(z) != canon_safe(x) and not wl_equal(x, z) and not in_gap(x) and not in_gap(z) and \
                    not vicinal_n_oxides(x) and not vicinal_n_oxides(m):
                sig = 'two-donor-cation' if two_donor_cation(x) or two_donor_cation(z) else op
                if sig == op and op in ('standardize', 'canonicalize', 'canonicalize_kekule', 'fix_resonance') and several_partners(m):
                    sig = 'two-donor-cation'
                if sig == op and op == 'neutralize' and several_acid_base_sites(m):
                    sig = 'several-acid-base-sites'
                rec.fail('numbering', f'{label}: result {canon_safe(x)!r} vs {canon_safe(z)!r} after renumbering '
                                      f'(tautomer fixing {"on" if ft else "off"})', sig=sig)
                return
    rec.sample('molecule', s0, cap=5)


def fired_rules(m):
    """patterns of the standardisation rules that fire on m (identifies a composition-changing rule independently of the input)"""
    try:
        log = m.copy().standardize(logging=True)
    except Exception:
        return '?'
    return ' + '.join(sorted({e[2] for e in log if e[1] >= 0}))


def vicinal_n_oxides(m):
    """two double-bonded cationic nitrogens that each carry an anionic substituent ([O-][N+](R)=[N+](R)[X-]): the spelling
    the rule tables document as canonical is changed again by fix_resonance (known finding)"""
    for a, b, bond in m.bonds():
        x, y = m.atom(a), m.atom(b)
        if bond.order == 2 and x.atomic_number == y.atomic_number == 7 and x.charge == y.charge == 1:
            if all(any(m.atom(k).charge == -1 for k in m._bonds[n]) for n in (a, b)):
                return True
    return False


def wl_equal(a, b):
    """colour refinement cannot tell the two (stereo-stripped, Kekule) graphs apart: treated as the same molecule (the canonical
    strings of symmetric Kekule forms may differ by the known C01 tie-break finding)"""
    from ..oracles import wl
    try:  # RDKit's aromaticity model unifies Kekule forms that chython keeps localised (quinoid dyes)
        from rdkit import Chem
        ra, rb = Chem.MolFromSmiles(str(a)), Chem.MolFromSmiles(str(b))
        if ra is not None and rb is not None and Chem.MolToSmiles(ra) == Chem.MolToSmiles(rb):
            return True
    except ImportError:
        pass

    def norm(m):
        c = m.copy()
        try:
            c.kekule()
            c.implicify_hydrogens()
            c.thiele(fix_tautomers=False)
        except Exception:
            pass
        return c
    ca, aa = wl.constitution(norm(a))
    cb, ab = wl.constitution(norm(b))
    if len(ca) != len(cb):
        return False
    col = {('a', n): c for n, c in ca.items()}
    col.update({('b', n): c for n, c in cb.items()})
    adj = {('a', n): {('a', k): o for k, o in nb.items()} for n, nb in aa.items()}
    adj.update({('b', n): {('b', k): o for k, o in nb.items()} for n, nb in ab.items()})
    r = wl.refine(col, adj)
    return sorted(v for (s, _), v in r.items() if s == 'a') == sorted(v for (s, _), v in r.items() if s == 'b')


def two_donor_cation(m):
    """delocalised cation (iminium / thiopyrylium / pyrylium type) with two or more amine donors on the conjugated system
    (methylene-blue, cyanine type): the resonance fixer moves the charge to another donor on every call (known finding)"""
    if not any(a.charge > 0 and a.atomic_number in (7, 8, 16) and a.hybridization in (2, 4) for _, a in m.atoms()):
        return False
    donors = 0
    for n, a in m.atoms():
        if a.atomic_number == 7 and (a.hybridization in (2, 4) and a.charge == 1 and not a.in_ring or a.hybridization == 1 and not a.charge):
            if any(m.atom(k).atomic_number == 6 and m.atom(k).hybridization in (2, 4) for k in m._bonds[n]):
                donors += 1
    return donors >= 2


def several_partners(m):
    """more than one charge-transfer partner on one side: >= 2 donors (anions, or amine N next to an sp2 carbon) for a cation, or
    >= 2 cations for a donor - fix_resonance pairs them in path-search order"""
    cations = sum(1 for _, a in m.atoms() if a.charge > 0 and a.atomic_number in (5, 6, 7, 8, 14, 15, 16, 33, 34, 52))
    donors = sum(1 for n, a in m.atoms() if a.atomic_number in (5, 6, 7, 8, 14, 15, 16, 33, 34, 52) and (
        a.charge < 0 or (a.atomic_number == 7 and not a.charge and a.hybridization == 1 and
                         any(m.atom(k).hybridization in (2, 3, 4) for k in m._bonds[n]))))
    return (cations >= 1 and donors >= 2) or (cations >= 2 and donors >= 1)


def several_acid_base_sites(m):
    """neutralize() with more candidates on one side than partners on the other (two protonated cations and one usable anion ...)"""
    acids = sum(1 for _, a in m.atoms() if a.charge > 0 and a.implicit_hydrogens)
    bases = sum(1 for _, a in m.atoms() if a.charge < 0)
    return (acids >= 2 and bases >= 1) or (bases >= 2 and acids >= 1)


def canon_safe(m):
    try:
        return canon(m)
    except Exception:
        return str(m)


def implicit_only(m):
    return m


def check_pair(case, rec):
    from chython import smiles
    a, b = case['pair']
    try:
        x, want = smiles(a), smiles(b)
    except Exception:
        rec.count('pairs:unparsable literal')
        return
    ok, log = rec.guard('standardize', x.standardize, logging=True)
    if not ok:
        return
    for entry in log:
        if entry[1] >= 0:
            rec.count('rule-fired')
            rec.nt(('rule', entry[2]))
    rec.nt(('pair', a))
    if x != want:
        rec.fail('documented-spelling', f'standardize({a!r}) gives {str(x)!r}, documented canonical spelling {str(want)!r}')
        return
    y = x.copy()
    y.standardize()
    if y != x:
        rec.fail('idempotent', f'standardize twice on {a!r}: {str(x)!r} -> {str(y)!r}',
                 sig='vicinal-N-oxides' if vicinal_n_oxides(x) else 'pair')
        return
    heavy = lambda m: Counter((q.atomic_symbol, q.isotope) for _, q in m.atoms() if q.atomic_number != 1)  # noqa
    if heavy(smiles(a)) != heavy(x):
        rec.fail('heavy-atoms', f'standardize({a!r}) changed the heavy atoms: {str(x)!r}', sig='pair')
        return
    # the same spelling under another numbering / insertion order
    src = smiles(a)
    for sd in (1, 2):
        try:
            r, mp, left = molgen.rebuild(src, sd, max_number=500)
        except Exception:
            rec.count('pairs:not rebuildable through the API (order 4 / special bonds)')
            return
        if left or molgen.map_snapshot(molgen.snapshot(src, hydrogens=False), mp) != molgen.snapshot(r, hydrogens=False):
            rec.count('pairs:not rebuildable')
            return
        # hydrogens of valence-invalid spellings are not derivable: copy them as read
        for n, k in mp.items():
            r.atom(k)._implicit_hydrogens = src.atom(n).implicit_hydrogens
        ok, _ = rec.guard('standardize', r.standardize)
        if ok and r != want and not in_gap(want):
            rec.fail('documented-spelling', f'standardize of {a!r} under another numbering gives {str(r)!r}, documented '
                                            f'{str(want)!r}', sig='renumbered')
            return
    rec.sample('pair', dict(spelling=a, canonical=b), cap=6)

"""
C11 - MDL (V2000/V3000) and MRV files: write then read preserves the record.  DESIGN 2/C11.
"""
import glob
import io
import os
import random as _random
import tempfile

from hypothesis import strategies as st

from .. import molgen
from ..boot import REPO
from ..core import hyp_run, direct_run

ID = 'C11'
RULE = ('records: 1-4 generated Kekule molecules (numbers <= 999, charges, isotopes, radicals, aromatic and coordinate bonds, names, '
        'metadata over printable text incl. < > & and multi-line values) or a reaction of them (0-2 molecules per role), with 2D '
        'coordinates from RDKit or clean2d, written with SDFWrite / ESDFWrite / RDFWrite / ERDFWrite / MRVWrite and read back; one '
        'record of a multi-record file is damaged at a drawn position; files on disk for random access. oracles: atom order and '
        'numbers, element, isotope, charge, radical, bond orders, roles, title, metadata (per-line strip), stereo configuration '
        '(centres without explicit hydrogens) equal; the written mol block read by RDKit is the same molecule; RDKit-written V2000/'
        'V3000 blocks of corpus molecules are read to the same molecule; records after a damaged one are all returned in order; '
        'reader[i] == list(reader)[i]; repository test files give the independently counted number of records. '
        'records written in two sessions (append=True) must read like one; drawings judged geometrically at record precision. non-trivial = record has charge, isotope, radical, stereo label, special bond or metadata; distinct by written text'
        '; also: the curated witness list is swept completely on every run.')
ASSUMPTIONS = ['metadata is compared modulo the readers\' documented per-line whitespace normalisation',
               'stereo is compared only for centres without explicit hydrogen neighbours (recorded writer/reader asymmetry)',
               'RDKit mol block reading is the independent judge of the wedge convention']

WRITERS = ['SDFWrite', 'ESDFWrite', 'RDFWrite', 'ERDFWrite', 'MRVWrite']
# '$' (record delimiter lines) is left out; a value line must not start with '>' (data header syntax of SD files)
TEXT = st.text(alphabet=st.sampled_from(list('abcXYZ019 _-+.,;:()[]{}<>&"\'/\\=#@!?*%')), min_size=1, max_size=12).map(
    lambda t: t.lstrip('> ') or 'v')


def shards(tier, seed):
    n = 300 if tier == 'quick' else 4000
    out = [dict(kind='rt', shard=i, n=n) for i in range(10)]
    out += [dict(kind='rdkit', shard=i, n=100 if tier == 'quick' else 2000) for i in range(2)]
    out += [dict(kind='files'), dict(kind='curated')]
    return out


def run_shard(shard, tier, seed):
    if shard['kind'] == 'files':
        return direct_run(ID, [{'repo_file': p} for p in sorted(glob.glob(os.path.join(REPO, 'test', '*')) +
                                                                glob.glob(os.path.join(REPO, 'doc', 'tutorial', '*')))
                               if p.rsplit('.', 1)[-1] in ('sdf', 'rdf', 'mrv')], check_case)
    if shard['kind'] == 'curated':
        # the curated witnesses (dependent stereo elements, cages, labelled isotopes ...) are always swept completely, each with a
        # writer and an RDKit drawing fixed by its position (drawn cases meet a given witness only now and then)
        return direct_run(ID, [dict(mols=[{'k': 'smi', 's': s}], writer=WRITERS[(i + seed) % len(WRITERS)], seed=seed * 7919 + i,
                                    layout='rdkit', meta=[], name='', reaction=False, damage=0, on_disk=False)
                               for i, s in enumerate(molgen.curated())], check_case)
    if shard['kind'] == 'rdkit':
        strat = st.fixed_dictionaries({'rdkit_block': st.integers(0, len(molgen.corpus()) - 1), 'v3000': st.booleans()})
        return hyp_run(ID, strat, check_case, max_examples=shard['n'], seed=seed * 1000 + 300 + shard['shard'])
    specs = molgen.mol_specs(max_atoms=12, corpus_w=5, curated_w=5, graph_w=5, literal_w=0, sym_w=3)
    strat = st.fixed_dictionaries({
        'mols': st.lists(specs, min_size=1, max_size=4), 'writer': st.sampled_from(WRITERS), 'seed': st.integers(0, 2 ** 31),
        'layout': st.sampled_from(['rdkit', 'rdkit', 'rdkit', 'clean2d', 'none']),
        'meta': st.lists(st.tuples(TEXT, st.lists(TEXT, min_size=1, max_size=2).map('\n'.join)), max_size=3),
        'name': st.one_of(st.just(''), TEXT), 'reaction': st.booleans(), 'damage': st.integers(0, 5), 'on_disk': st.booleans()})
    return hyp_run(ID, strat, check_case, max_examples=shard['n'], seed=seed * 1000 + shard['shard'])


# ---------------------------------------------------------------------------------------------------

def layout(m, how, rnd):
    if how == 'none':
        return False
    if how == 'clean2d':
        _random.seed(rnd.randrange(2 ** 30))  # clean2d draws from the global generator: make the case a function of its seed
        m.clean2d()
        return True
    from rdkit import Chem
    from rdkit.Chem import AllChem
    from chython.utils.rdkit import to_rdkit_molecule
    rd = to_rdkit_molecule(m)
    AllChem.Compute2DCoords(rd)
    c = rd.GetConformer(rd.GetNumConformers() - 1)
    for i, (n, a) in enumerate(m.atoms()):
        p = c.GetAtomPosition(i)
        a.x, a.y = round(p.x, 4), round(p.y, 4)
    return True


def meta_norm(v):
    return '\n'.join(x.strip() for x in str(v).strip().split('\n'))


def record_fields(m):
    return ([(n, a.atomic_symbol, a.isotope, a.charge, a.is_radical) for n, a in m.atoms()],
            sorted((tuple(sorted((x, y))), b.order) for x, y, b in m.bonds()))


def write_all(writer, records, mapping=True):
    import chython.files as F
    f = io.StringIO()
    w = getattr(F, writer)(f, mapping=mapping) if writer != 'MRVWrite' else F.MRVWrite(f, mapping=mapping)
    for r in records:
        w.write(r)
    w.close()
    return f.getvalue()


def reader_for(writer):
    import chython.files as F
    return {'SDFWrite': F.SDFRead, 'ESDFWrite': F.SDFRead, 'RDFWrite': F.RDFRead, 'ERDFWrite': F.RDFRead, 'MRVWrite': F.MRVRead}[writer]


def read_all(writer, text, **kw):
    R = reader_for(writer)
    if writer == 'MRVWrite':
        return list(R(io.BytesIO(text.encode()), **kw))
    return list(R(io.StringIO(text), **kw))


def _pseudo(m):
    from ..oracles import wl
    try:
        col, adj = wl.constitution(m)
        orb = wl.orbits(col, adj)
        return wl.gap_a(m, orb) or wl.odd_label_orbit(m, orb) or wl.annulene_stereo(m)
    except TimeoutError:
        return True


def _ring_pseudo(m):
    from ..oracles import wl
    try:
        col, adj = wl.constitution(m)
        return wl.gap_a_ring(m, wl.orbits(col, adj))
    except TimeoutError:
        return True


def _odd(m):
    from ..oracles import wl
    try:
        col, adj = wl.constitution(m)
        return wl.odd_label_orbit(m, wl.orbits(col, adj))
    except TimeoutError:
        return True


_CIS = []


def _cis_sign():
    """value of _translate_cis_trans_sign for a cis pair, calibrated once on F/C=C\\F (cis by the SMILES definition)"""
    if not _CIS:
        from chython import smiles
        _CIS.append(smiles('F/C=C\\F')._translate_cis_trans_sign(2, 3, 1, 4))
    return _CIS[0]


def _geometric_cis(a, n, k, x, y):
    """True: x (on n) and y (on k) lie on the same side of the axis n-k in the drawing; None if not decidable at record precision"""
    def p(t):
        return round(a.atom(t).x, 4), round(a.atom(t).y, 4)
    (nx, ny), (kx, ky), (xx, xy), (yx, yy) = p(n), p(k), p(x), p(y)
    ax, ay = kx - nx, ky - ny
    c1 = ax * (xy - ny) - ay * (xx - nx)
    c2 = ax * (yy - ky) - ay * (yx - kx)
    if abs(c1) < 1e-2 or abs(c2) < 1e-2:
        return None
    return (c1 > 0) == (c2 > 0)


def _precision_stable(a):
    """the wedge signs must not depend on digits the record formats do not store (MDL: 4 decimals, MRV: 4 decimals of 2x)"""
    want = sorted(a._wedge_map)
    for scale in (1, 2):
        r = a.copy()
        for _, at in r.atoms():
            at.x, at.y = round(at.x * scale, 4) / scale, round(at.y * scale, 4) / scale
        r.flush_cache()
        r.calc_labels()
        if sorted(r._wedge_map) != want:
            return False
    return True


def compare_mol(a, b, rec, label, coords):
    if record_fields(a) != record_fields(b):
        fa, fb = record_fields(a), record_fields(b)
        d = [(x, y) for x, y in zip(fa[0], fb[0]) if x != y][:2] or [(x, y) for x, y in zip(fa[1], fb[1]) if x != y][:2]
        rec.fail('record', f'{label}: atoms/bonds differ after reading: {d} ({len(fa[0])}/{len(fb[0])} atoms, '
                           f'{len(fa[1])}/{len(fb[1])} bonds)', sig='atoms' if fa[0] != fb[0] else 'bonds')
        return False
    if coords and (any(sg == 0 for *_, sg in a._wedge_map) or not _precision_stable(a)):
        rec.count('layout is degenerate for a labelled centre (wedge sign 0, or sign decided below the 4 decimals a record keeps): '
                  'stereo not asserted')
        coords = False
    if coords and a.chiral_cis_trans:
        # a double bond that could carry a label but does not: a coordinate record cannot say "unspecified" (the reader derives
        # cis/trans from the drawing), so centres whose stereogenicity depends on it are outside the claim
        rec.count('unlabelled stereogenic double bond with coordinates: stereo not asserted')
        coords = False
    if coords:
        # cis/trans is re-derived from the coordinates by the reader: claimed only if the layout encodes the label
        # independent of the library's own 2D perception: side of each reference substituent relative to the double-bond axis
        encoded = {}
        for (n, k), env in a.stereogenic_cis_trans.items():
            i, j = a._stereo_cis_trans_centers[n]
            if a.bond(i, j).stereo is None:
                continue
            g = _geometric_cis(a, n, k, env[0], env[1])
            encoded[(i, j)] = g is not None and g == (a._translate_cis_trans_sign(n, k, env[0], env[1]) == _cis_sign())
        drawn = all(encoded.values())
        # stereo: only centres without explicit hydrogen neighbours are claimed; and only if the drawing shows the labelled
        # double bonds as labelled (otherwise the record describes another stereoisomer, whose centres may not be stereogenic)
        sub = {n for n in a.stereogenic_tetrahedrons if a.atom(n).stereo is not None and
               not any(a.atom(k).atomic_number == 1 for k in a._bonds[n])} if drawn else set()
        if not drawn:
            rec.count('drawing does not show every labelled double bond as labelled: tetrahedral labels not asserted')
        for n in sub:
            env = a.stereogenic_tetrahedrons[n]
            if b.atom(n).stereo is None:
                rec.fail('stereo', f'{label}: tetrahedral label of atom {n} lost',
                         sig='tetrahedral-lost:odd-label-orbit' if _odd(a) else
                         ('tetrahedral-lost:pseudo-asymmetric-ring' if _ring_pseudo(a) else 'tetrahedral-lost'))
                return False
            if b._translate_tetrahedron_sign(n, env) != a._translate_tetrahedron_sign(n, env):
                rec.fail('stereo', f'{label}: configuration of atom {n} inverted', sig='tetrahedral-sign')
                return False
        bare = None
        for (n, k), env in a.stereogenic_cis_trans.items():
            i, j = a._stereo_cis_trans_centers[n]
            if a.bond(i, j).stereo is None or any(a.atom(x).atomic_number == 1 for x in env if x is not None):
                continue
            if not encoded.get((i, j)):
                rec.count('cis/trans label not encoded by the layout (clean2d draws double bonds trans): not asserted')
                continue
            if not drawn:
                # another double bond is drawn differently from its label: this one is claimed only if it is stereogenic whatever
                # the others are (constitutionally different substituents)
                if bare is None:
                    bare = a.copy()
                    bare.clean_stereo()
                if (n, k) not in bare.chiral_cis_trans and (k, n) not in bare.chiral_cis_trans:
                    rec.count('cis/trans label depends on another double bond that the layout draws differently: not asserted')
                    continue
            if b.bond(i, j).stereo is None:
                rec.fail('stereo', f'{label}: cis/trans label of bond {i}-{j} lost', sig='cis-trans-lost')
                return False
            if b._translate_cis_trans_sign(n, k, env[0], env[1]) != a._translate_cis_trans_sign(n, k, env[0], env[1]):
                rec.fail('stereo', f'{label}: cis/trans configuration of bond {i}-{j} changed', sig='cis-trans-sign')
                return False
    return True


def check_case(case, rec):
    if 'repo_file' in case:
        return check_repo_file(case, rec)
    if 'rdkit_block' in case:
        return check_rdkit_block(case, rec)
    from chython import ReactionContainer
    rnd = _random.Random(case['seed'])
    mols = []
    kinds = []
    coords = case['layout'] != 'none'
    for spec in case['mols']:
        try:
            m = molgen.build_kekule(spec).copy()
        except molgen.Reject as e:
            rec.count(f'generator-reject:{e}')
            continue
        if len(m) > 60:
            continue
        if any(a.atomic_number not in (6, 7) and sum(b.order == 2 for b in m._bonds[n].values()) >= 2 and
               any(m.atom(k).atomic_number == 6 and b.order == 2 for k, b in m._bonds[n].items()) for n, a in m.atoms()):
            rec.count('generator-reject:hypervalent atom inside a cumulated double-bond chain')
            continue
        # renumber <= 999, non-contiguous
        m, _ = molgen.remap_copy(m, rnd.randrange(2 ** 30), max_number=999)
        try:
            if coords:
                layout(m, case['layout'], rnd)
        except Exception as e:
            rec.count(f'layout-failed:{type(e).__name__}')
            continue
        if coords:
            # labels must be expressible by the coordinates: keep what survives a re-derivation from the layout
            if any(b.order == 8 for *_, b in m.bonds()):
                pass
        m.name = case['name'] if '\n' not in case['name'] else ''
        for k, v in case['meta']:
            if k.strip() and '\n' not in k:
                m.meta[k.strip()] = v
        mols.append(m)
        kinds.append(spec['k'])
    if not mols:
        return
    writer = case['writer']
    as_rxn = case['reaction'] and writer in ('RDFWrite', 'ERDFWrite', 'MRVWrite') and len(mols) >= 1
    if as_rxn:
        k = len(mols)
        used = set()
        ok = True
        for m in mols:
            if used & set(m):
                ok = False
            used |= set(m)
        if not ok:
            as_rxn = False
    if as_rxn:
        cut1, cut2 = sorted((rnd.randint(0, k), rnd.randint(0, k)))
        r = ReactionContainer(mols[:cut1], mols[cut2:], mols[cut1:cut2])
        r.name = case['name'] if '\n' not in case['name'] else ''
        for kk, v in case['meta']:
            if kk.strip() and '\n' not in kk:
                r.meta[kk.strip()] = v
        records = [r, r]
    else:
        records = mols
    label = f'{writer} of {[str(x) for x in records][:3]} (layout {case["layout"]})'
    ok, text = rec.guard('write', write_all, writer, records)
    if not ok:
        return
    rec.count(f'writer:{writer}:{"reaction" if as_rxn else "molecules"}')
    if any(a.charge or a.isotope or a.is_radical or a.stereo is not None for m in mols for _, a in m.atoms()) or case['meta'] or \
            any(b.order in (4, 8) for m in mols for *_, b in m.bonds()):
        rec.nt(text)
    ok, back = rec.guard('read', read_all, writer, text, calc_cis_trans=coords)
    if not ok:
        return
    if len(back) != len(records):
        rec.fail('record-count', f'{label}: {len(records)} records written, {len(back)} read', sig=writer)
        return
    for orig, got in zip(records, back):
        if as_rxn:
            if not isinstance(got, ReactionContainer) or [len(got.reactants), len(got.reagents), len(got.products)] != \
                    [len(orig.reactants), len(orig.reagents), len(orig.products)]:
                rec.fail('roles', f'{label}: roles {[len(orig.reactants), len(orig.reagents), len(orig.products)]} written, '
                                  f'read {got}', sig=writer)
                return
            pairs = list(zip(orig.molecules(), got.molecules()))
        else:
            pairs = [(orig, got)]
        for a, b in pairs:
            if not compare_mol(a, b, rec, label, coords):
                return
        if (orig.name or '').strip() != (got.name or '').strip():
            rec.fail('title', f'{label}: title {orig.name!r} read as {got.name!r}', sig=writer)
            return
        want = {k.strip(): meta_norm(v) for k, v in orig.meta.items() if not k.startswith('chython_')}
        gotm = {k.strip(): meta_norm(v) for k, v in got.meta.items() if not k.startswith('chython_')}
        if want != gotm:
            rec.fail('metadata', f'{label}: metadata {want} read as {gotm}', sig=writer)
            return
    # the written V2000 block read by RDKit is the same molecule (wedge convention)
    if writer == 'SDFWrite' and coords and not as_rxn:
        from .c03 import rdkit_same
        from rdkit import Chem
        blocks = text.split('$$$$\n')
        for kind, m, blk in zip(kinds, mols, blocks):
            if kind == 'graph' or any(a.is_radical for _, a in m.atoms()):
                continue  # RDKit's wedge perception is only trusted on drug-like (corpus / curated) closed-shell molecules
            if any(b.order == 8 for *_, b in m.bonds()) or any(m.atom(n).stereo is not None for n in m.stereogenic_allenes) or \
                    any(a.atomic_number == 1 or not a.is_forming_single_bonds for _, a in m.atoms()):
                continue  # RDKit conventions for coordinate bonds, allenes, explicit H and metal hydrogens differ
            from ..oracles import valence_ref
            if any(a.implicit_hydrogens != valence_ref.implicit_h(a, valence_ref.atom_neighbours(m, n)) for n, a in m.atoms()):
                rec.count('rdkit:skip (a hydrogen count that is not the default one: a mol block has no field for it)')
                continue
            rd = Chem.MolFromMolBlock(blk.split('>  <')[0])
            if rd is None:
                rec.count('rdkit:rejects-block')
                continue
            from ..oracles import wl
            try:
                col, adj = wl.constitution(m)
                if wl.gap_a(m, wl.orbits(col, adj)):
                    continue
            except TimeoutError:
                continue
            # the wedge convention is what is judged here: double bonds get their configuration from the coordinates in
            # both toolkits (RDKit also for bonds chython leaves unlabelled), so bond stereo is removed on both sides
            if m.chiral_tetrahedrons or any(sg == 0 for *_, sg in m._wedge_map):
                continue  # partially labelled or degenerate layout: perception rules of the two toolkits are not comparable
            for bnd in rd.GetBonds():
                bnd.SetStereo(Chem.BondStereo.STEREONONE)
                bnd.SetBondDir(Chem.BondDir.NONE)
            rd.RemoveAllConformers()
            mm = m.copy()
            for *_, bb in mm.bonds():
                bb._stereo = None
            mm.flush_cache()
            mm.calc_labels()
            mm.fix_stereo()
            same = rdkit_same(Chem.MolToSmiles(rd), str(mm))
            rec.count('rdkit:blocks-compared')
            if same is False:
                rec.fail('rdkit-block', f'{label}: RDKit reads the written mol block as {Chem.MolToSmiles(rd)!r}, molecule is {str(m)!r}')
                return
    # damaged record in a multi-record molecule file: the following records survive
    if not as_rxn and len(records) >= 2 and writer in ('SDFWrite', 'ESDFWrite'):
        pos = case['damage'] % len(records)
        parts = text.split('$$$$\n')
        lines = parts[pos].split('\n')
        how = case['damage'] % 3
        if how == 0 and len(lines) > 3:
            lines[3] = lines[3][:5]  # truncated counts line
        elif how == 1 and len(lines) > 4:
            lines[4] = lines[4][:20] + 'xx.xxxx' + lines[4][27:]  # non-numeric coordinate
        else:
            lines = [x for x in lines if x != 'M  END']
        parts[pos] = '\n'.join(lines)
        ok, rest = rec.guard('read-damaged', read_all, writer, '$$$$\n'.join(parts), calc_cis_trans=coords)
        if ok:
            want = [record_fields(m) for i, m in enumerate(records) if i != pos]
            got = [record_fields(m) for m in rest]
            if not _is_subsequence(want, got) or len(got) > len(records):
                rec.fail('damaged-record', f'{label}: record {pos} damaged ({["counts line", "coordinate", "M  END"][how]}): '
                                           f'{len(rest)} records read, the {len(want)} undamaged ones are not all returned in order',
                         sig=f'{writer}:{how}')
                return
            rec.count('damaged-files')
    # random access on a real file
    if case['on_disk'] and writer != 'MRVWrite' and len(records) >= 2:
        with tempfile.TemporaryDirectory(prefix='vf_c11_') as tmp:
            p = os.path.join(tmp, 'a.sdf' if 'SDF' in writer else 'a.rdf')
            open(p, 'w').write(text)
            R = reader_for(writer)
            try:
                with R(p, indexable=True) as rd:
                    seq = [record_fields_any(x) for x in rd]
                with R(p, indexable=True) as rd:
                    n = len(rd)
                    idx = [record_fields_any(rd[i]) for i in range(n)]
                    sl = [record_fields_any(x) for x in rd[1:]]
            except Exception as e:
                from ..core import chython_frame
                rec.fail('random-access', f'{label}: {type(e).__name__}: {e}', sig=f'{writer}:{type(e).__name__}@{chython_frame(e.__traceback__)}')
                return
            finally:
                _drop_index_cache(p)
            # the same records written in two sessions (second one with append=True) read back as one file
            import chython.files as F
            p2 = os.path.join(tmp, 'b.sdf' if 'SDF' in writer else 'b.rdf')
            k = 1 + case['damage'] % (len(records) - 1)
            try:
                with getattr(F, writer)(p2) as w:
                    for r in records[:k]:
                        w.write(r)
                with getattr(F, writer)(p2, append=True) as w:
                    for r in records[k:]:
                        w.write(r)
                with R(p2) as rd:
                    two = list(rd)
            except Exception as e:
                from ..core import chython_frame
                rec.fail('append', f'{label}: {type(e).__name__}: {e}', sig=f'{writer}:{type(e).__name__}@{chython_frame(e.__traceback__)}')
                return
            one = read_all(writer, text)
            if [record_fields_any(x) for x in two] != [record_fields_any(x) for x in one] or \
                    [{kk: meta_norm(v) for kk, v in x.meta.items() if not kk.startswith('chython_')} for x in two] != \
                    [{kk: meta_norm(v) for kk, v in x.meta.items() if not kk.startswith('chython_')} for x in one]:
                rec.fail('append', f'{label}: records written in two sessions (append=True after {k}) read back differently from the same '
                                   f'records written in one session', sig=writer)
                return
            rec.count('append-files')
            if n != len(records) or idx != seq or sl != seq[1:]:
                rec.fail('random-access', f'{label}: indexed access differs from sequential reading ({n} records)', sig=writer)
                return
            rec.count('random-access-files')
    rec.sample(writer, text[:400], cap=2)


def _drop_index_cache(path):
    """the readers keep an index file chython_<base64(path)> in the system temp directory: remove the one of our scratch file"""
    import base64
    try:
        os.remove(os.path.join(tempfile.gettempdir(), 'chython_' + base64.urlsafe_b64encode(os.path.abspath(path).encode()).decode()))
    except OSError:
        pass


def record_fields_any(x):
    from chython import ReactionContainer
    if isinstance(x, ReactionContainer):
        return [record_fields(m) for m in x.molecules()]
    return record_fields(x)


def _is_subsequence(want, got):
    it = iter(got)
    return all(any(w == g for g in it) for w in want)


def check_rdkit_block(case, rec):
    from rdkit import Chem
    from rdkit.Chem import AllChem
    from chython import smiles
    from chython.files import mdl_mol
    s = molgen.corpus()[case['rdkit_block']]
    rd = Chem.MolFromSmiles(s)
    if rd is None:
        return
    AllChem.Compute2DCoords(rd)
    block = Chem.MolToMolBlock(rd, forceV3000=case['v3000'])
    ok, m = rec.guard('read-foreign', mdl_mol, block, calc_cis_trans=False)
    if not ok:
        return
    rec.count(f'rdkit-written:{"V3000" if case["v3000"] else "V2000"}')
    want = smiles(s)
    # a mol block carries double-bond configuration only through coordinates: compare constitution + tetrahedral centres
    for x in (m, want):
        for *_, bb in x.bonds():
            bb._stereo = None
        x.flush_cache()
        x.calc_labels()
        x.fix_stereo()
    try:
        molgen.normalise(m)
        molgen.normalise(want)
    except molgen.Reject:
        return
    rec.nt(block)
    if str(m) != str(want):
        from ..oracles import wl
        try:
            col, adj = wl.constitution(want)
            if wl.gap_a(want, wl.orbits(col, adj)):
                rec.count('pseudo-asymmetric: not asserted')
                return
        except TimeoutError:
            return
        a, b = want.copy(), m.copy()
        a.clean_stereo()
        b.clean_stereo()
        rec.fail('read-foreign', f'RDKit {"V3000" if case["v3000"] else "V2000"} block of {s!r} read as {str(m)!r}, expected {str(want)!r}',
                 sig='stereo' if str(a) == str(b) else 'graph')


def check_repo_file(case, rec):
    import chython.files as F
    p = case['repo_file']
    text = open(p, errors='replace').read()
    ext = p.rsplit('.', 1)[-1]
    if ext == 'sdf':
        want, R = text.count('$$$$'), F.SDFRead
    elif ext == 'rdf':
        want, R = text.count('$RFMT') + text.count('$MFMT'), F.RDFRead
    else:
        want, R = text.count('<MDocument'), F.MRVRead
    ok, got = rec.guard('repo-file', lambda: list(R(p)))
    if not ok:
        return
    rec.nt(p)
    rec.nt(p + '#')
    rec.count(f'repo-files:{ext}')
    if len(got) != want:
        rec.fail('repo-file-count', f'{os.path.relpath(p, REPO)}: {want} records by delimiter count, {len(got)} read')
        return
    rec.sample('repo-file', dict(file=os.path.relpath(p, REPO), records=want), cap=8)

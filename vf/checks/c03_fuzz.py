"""
C03 thorough tier: coverage-guided fuzzing of chython.smiles / chython.smarts with atheris (libFuzzer).
The semantic oracle of C03 (reference reader classification + ValueError-only + raw graph comparison) runs inside the
target.  libFuzzer stops at the first crash, so the target never crashes: every new failure bucket is appended to a
jsonl file and the campaign continues; the parent process turns the buckets into violations / known findings.
A campaign that cannot start (atheris missing) is "inconclusive for the fuzz stratum" - counted, never a violation.
"""
import json
import os
import subprocess
import sys
import tempfile

from ..boot import VERIF
from ..core import Recorder

ALPHABET = ['C', 'c', 'N', 'n', 'O', 'o', 'S', 's', 'P', 'F', 'Cl', 'Br', 'I', 'B', '[', ']', '(', ')', '1', '2', '3', '9', '0',
            '%', '%10', '%11', '=', '#', ':', '-', '~', '/', '\\', '.', '>', '@', '@@', 'H', 'H2', '+', '-', '++', '+2', ':1',
            ':12', '13', '2', 'Na', 'Fe', 'se', 'as', ' ', '|', '^1:', 'f:', '0', ',', '0.1', ';', '!', 'D2', 'h1', 'r5', 'x1',
            'z2', 'a', 'A', 'M', '!R', '$', '&', '*', '#6', 'Se']


def run(shard, seed):
    rec = Recorder('C03')
    deps = os.path.join(VERIF, '.deps')
    try:
        subprocess.run([sys.executable, '-c', 'import atheris'], check=True, capture_output=True,
                       env=dict(os.environ, PYTHONPATH=deps))
    except Exception:
        rec.count('fuzz:atheris-missing (stratum inconclusive)')
        return rec.result()
    runs = int(os.environ.get('VERIF_FUZZ_RUNS', '2000000'))
    with tempfile.TemporaryDirectory(prefix='vf_c03_fuzz_') as tmp:
        corpus = os.path.join(tmp, 'corpus')
        os.makedirs(corpus)
        if shard['shard'] % 2:  # seeded corpus: a few valid strings from the repository's own csv
            from .. import molgen
            for i in range(0, 4200, 300):
                with open(os.path.join(corpus, f's{i}'), 'wb') as f:
                    f.write(b'\x00' + molgen.corpus()[i].encode())
        out = os.path.join(tmp, 'out.jsonl')
        stats = os.path.join(tmp, 'stats.json')
        env = dict(os.environ, PYTHONPATH=os.pathsep.join([VERIF, deps]), VF_FUZZ_OUT=out, VF_FUZZ_STATS=stats,
                   VF_FUZZ_TARGET='smarts' if shard['shard'] >= 2 else 'smiles')
        cmd = [sys.executable, '-m', 'vf.checks.c03_fuzz', corpus, f'-runs={runs}', f'-seed={seed * 100 + shard["shard"] + 1}',
               '-max_len=48', '-timeout=30', '-rss_limit_mb=4000', '-verbosity=0', '-print_final_stats=0']
        p = subprocess.run(cmd, env=env, cwd=VERIF, capture_output=True, text=True, timeout=3600)
        if os.path.exists(stats):
            st = json.load(open(stats))
            rec.evaluations += st.get('execs', 0)
            for k, v in st.get('counts', {}).items():
                rec.counts[f'fuzz:{k}'] += v
            rec.nontrivial.update(st.get('nontrivial', []))
            for x in st.get('samples', []):
                rec.sample(f'fuzz:{env["VF_FUZZ_TARGET"]}', x)
        else:
            rec.count('fuzz:campaign-did-not-report (stratum inconclusive)')
            rec.sample('fuzz:stderr', (p.stderr or '')[-400:])
        if os.path.exists(out):
            rec.collect = True
            for line in open(out):
                v = json.loads(line)
                rec.current_case = {'text': v['text'], 'fuzz_target': v['target']}
                rec.fail(v['clause'], v['detail'], sig=v['sig'])
    return rec.result()


# ---------------------------------------------------------------------------------------------------
# subprocess side

def main():
    import atheris
    sys.path.insert(0, VERIF)
    from vf.boot import boot
    boot()
    with atheris.instrument_imports(include=['chython.files.daylight', 'chython.files._convert', 'chython.files._mapping']):
        import chython.files.daylight.tokenize  # noqa
        import chython.files.daylight.parser  # noqa
        import chython.files.daylight.smiles  # noqa
        import chython.files.daylight.smarts  # noqa
    from vf.checks import c03
    from vf.core import Violation, digest
    from chython import smarts
    target = os.environ.get('VF_FUZZ_TARGET', 'smiles')
    out_path, stats_path = os.environ['VF_FUZZ_OUT'], os.environ['VF_FUZZ_STATS']
    seen = set()
    state = dict(execs=0, counts={}, nontrivial=set(), samples=[])

    def flush():
        json.dump(dict(execs=state['execs'], counts=state['counts'], nontrivial=sorted(state['nontrivial'])[:200000],
                       samples=state['samples'][:8]), open(stats_path, 'w'))

    def decode(data):
        if not data:
            return ''
        if data[0] & 1:  # token mode
            return ''.join(ALPHABET[b % len(ALPHABET)] for b in data[1:])
        return data[1:].decode('latin-1')

    def one(data):
        text = decode(data)
        state['execs'] += 1
        if not text or len(text) > 80 or any(ord(c) > 126 or ord(c) < 32 for c in text):
            return
        rec = Recorder('C03', known=[])
        try:
            if target == 'smiles':
                c03.check_text(text, rec, 'fuzz')
            else:
                try:
                    q = smarts(text)
                    rec.count('fuzz:smarts-accepted')
                    if len(q) >= 2:
                        rec.nt(text)
                except ValueError:
                    rec.count('fuzz:smarts-rejected')
                except Exception as e:
                    from vf.core import chython_frame
                    rec.fail('unrelated-exception', f'smarts({text!r}): {type(e).__name__}: {e}',
                             sig=f'smarts:{type(e).__name__}@{chython_frame(e.__traceback__)}')
        except Violation as v:
            if v.bucket not in seen:
                seen.add(v.bucket)
                with open(out_path, 'a') as f:
                    f.write(json.dumps(dict(clause=v.clause, detail=v.detail, sig=v.bucket.split('|', 1)[1] if '|' in v.bucket else '',
                                            text=text, target=target)) + '\n')
        for k, n in rec.counts.items():
            state['counts'][k] = state['counts'].get(k, 0) + n
        state['nontrivial'].update(rec.nontrivial)
        if rec.nontrivial and len(state['samples']) < 8:
            state['samples'].append(text)
        if state['execs'] % 1000 == 0:
            flush()

    import atexit
    atexit.register(flush)
    atheris.Setup(sys.argv, one)
    try:
        atheris.Fuzz()
    finally:
        flush()


if __name__ == '__main__':
    main()

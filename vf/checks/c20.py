"""
C20 - RDKit bridge preserves structure and configuration in both directions.  DESIGN 2/C20.
"""
import random as _random

from hypothesis import strategies as st

from .. import molgen
from ..core import hyp_run, direct_run, HarnessError
from ..oracles import wl

ID = 'C20'
RULE = ('molecules both toolkits accept (corpus, curated, literals, constructive and symmetric constructions with carbon '
        'stereocentres and stereo double bonds; ions, isotopes, radicals; explicit hydrogens / deuterium) in Kekule or aromatic '
        'form, rebuilt with drawn numbering and insertion order, with drawn 2D coordinates, keep_mapping on/off: '
        'to_rdkit_molecule(m) must be chirality-aware isomorphic to RDKit\'s own reading of the molecule\'s SMILES and carry '
        'element/isotope/charge/radical/H/map/coordinates per atom; from_rdkit_molecule() of it and of RDKit-parsed corpus '
        'molecules (also with explicit H added by RDKit) must equal the chython molecule atom-wise and by canonical string; both '
        'round trips are identities. non-trivial = stereo label, charge, isotope or aromatic ring; distinct by canonical string'
        '; also: source-text clause: configuration RDKit reads from the text equals the one returned through the bridge.'
        '; also: the curated witness list is swept completely on every run.')
ASSUMPTIONS = ['RDKit canonical SMILES / chirality-aware substructure match in both directions is the judge on the RDKit side, '
               'chython canonical SMILES after kekule()+thiele() on the chython side',
               'chython supports tetrahedral stereo on carbon only and RDKit no allene/cumulene stereo: those labels are not compared',
               'centres with constitutionally equivalent substituents (pseudo-asymmetric) are outside the comparison (both '
               'canonicalisers are documented as non-invariant there)']


def shards(tier, seed):
    n = 450 if tier == 'quick' else 6000
    return [dict(shard=i, n=n) for i in range(12)] + [dict(shard='curated')]


def run_shard(shard, tier, seed):
    try:
        import rdkit  # noqa
    except ImportError:
        raise HarnessError('RDKit is not importable: C20 cannot be decided')
    if shard['shard'] == 'curated':
        # the curated witnesses are swept completely on every run (drawn cases meet a given witness only now and then)
        return direct_run(ID, [{'mol': {'k': 'smi', 's': s}, 'seed': seed * 7919 + i, 'form': ['thiele', 'kekule'][i % 2], 'mapping': bool(i % 3),
                                'rdkit_first': bool(i % 5 % 2)} for i, s in enumerate(molgen.curated())], check_case)
    strat = st.fixed_dictionaries({'mol': molgen.mol_specs(max_atoms=14, corpus_w=6, curated_w=3, graph_w=4, literal_w=1, sym_w=2),
                                   'seed': st.integers(0, 2 ** 31), 'form': st.sampled_from(['thiele', 'thiele', 'kekule']),
                                   'mapping': st.booleans(), 'rdkit_first': st.booleans()})
    return hyp_run(ID, strat, check_case, max_examples=shard['n'], seed=seed * 1000 + shard['shard'])


def rd_strip(mol):
    from rdkit import Chem
    for at in mol.GetAtoms():
        if at.GetAtomicNum() != 6 and at.GetChiralTag() != Chem.ChiralType.CHI_UNSPECIFIED:
            at.SetChiralTag(Chem.ChiralType.CHI_UNSPECIFIED)
    return mol


def rd_same(a, b):
    from rdkit import Chem
    a, b = rd_strip(Chem.RemoveHs(Chem.Mol(a))), rd_strip(Chem.RemoveHs(Chem.Mol(b)))
    for x in (a, b):
        for at in x.GetAtoms():
            at.SetAtomMapNum(0)
    if Chem.MolToSmiles(a) == Chem.MolToSmiles(b):
        return True
    return a.GetNumAtoms() == b.GetNumAtoms() and a.HasSubstructMatch(b, useChirality=True) and \
        b.HasSubstructMatch(a, useChirality=True)


def in_pseudo_domain(m):
    try:
        col, adj = wl.constitution(m)
        orb = wl.orbits(col, adj)
        return wl.gap_a(m, orb) or wl.odd_label_orbit(m, orb) or wl.annulene_stereo(m)
    except TimeoutError:
        return True


def in_pseudo_domain_text(text):
    """domain decision for a source text: made on the RDKit side (stereo elements RDKit finds whose substituents tie in its own
    canonical ranking), so that a label the library failed to read cannot hide the molecule from the comparison"""
    from rdkit import Chem
    rd = Chem.MolFromSmiles(text)
    if rd is None:
        return True
    ranks = list(Chem.CanonicalRankAtoms(rd, breakTies=False, includeChirality=False))
    for at in rd.GetAtoms():
        if at.GetChiralTag() != Chem.ChiralType.CHI_UNSPECIFIED:
            nb = [ranks[x.GetIdx()] for x in at.GetNeighbors()]
            if len(set(nb)) < len(nb) or at.GetAtomicNum() != 6:
                return True
    for b in rd.GetBonds():
        if b.GetStereo() != Chem.BondStereo.STEREONONE:
            for end, other in ((b.GetBeginAtom(), b.GetEndAtom()), (b.GetEndAtom(), b.GetBeginAtom())):
                nb = [ranks[x.GetIdx()] for x in end.GetNeighbors() if x.GetIdx() != other.GetIdx()]
                if len(set(nb)) < len(nb):
                    return True
            if b.IsInRing() and any(len(r) >= 8 and b.GetBeginAtomIdx() in r and b.GetEndAtomIdx() in r and
                                    sum(1 for x in rd.GetBonds() if x.GetStereo() != Chem.BondStereo.STEREONONE and
                                        x.GetBeginAtomIdx() in r and x.GetEndAtomIdx() in r) >= 3 for r in rd.GetRingInfo().AtomRings()):
                return True  # annulene-type ring stereo (known finding)
    return False


def in_ring_pseudo_domain(m):
    """the part of the pseudo-asymmetric domain where RDKit's own perception drops or re-derives tags (ring para-centres); acyclic
    dependent centres (two separate arms differing by their labels) are handled by both toolkits and stay in the comparison"""
    try:
        col, adj = wl.constitution(m)
        orb = wl.orbits(col, adj)
        return wl.gap_a_ring(m, orb) or wl.odd_label_orbit(m, orb) or wl.annulene_stereo(m)
    except TimeoutError:
        return True


def check_case(case, rec):
    from rdkit import Chem
    from chython.utils.rdkit import to_rdkit_molecule, from_rdkit_molecule
    from chython import smiles
    spec = case['mol']
    try:
        m = molgen.build(spec)
    except molgen.Reject as e:
        rec.count(f'generator-reject:{e}')
        return
    if any(b.order == 8 for *_, b in m.bonds()):
        rec.count('skip:coordinate bonds')
        return
    if any(m.atom(n).stereo is not None for n in m.stereogenic_allenes) or \
            any(len(p) > 2 and len(p) % 2 == 0 and m.bond(p[len(p) // 2 - 1], p[len(p) // 2]).stereo is not None
                for p in m.stereogenic_cumulenes):
        rec.count('skip:allene/cumulene stereo (unsupported by RDKit and by the bridge)')
        return
    if any(a.in_ring and a.charge == 1 and a.atomic_number in (8, 16) and a.implicit_hydrogens for _, a in m.atoms()):
        rec.count('skip:protonated ring oxonium/sulfonium (aromaticity models differ)')
        return
    if any(b.order == 3 and b.in_ring for *_, b in m.bonds()):
        rec.count('skip:ring triple bond (RDKit aromatises such rings)')
        return
    rnd = _random.Random(case['seed'])
    # rebuilt with drawn numbers / insertion order (on the Kekule form), then the requested form
    mk = m.copy()
    mk.kekule()
    if mk.check_valence() or any(a.implicit_hydrogens is None for _, a in mk.atoms()):
        rec.count('skip:the Kekule form of the aromatic input is not valence-valid (exotic aromatic ring, C05 domain question)')
        return
    r, mp, left = molgen.rebuild(mk, case['seed'], max_number=900)
    if left or molgen.map_snapshot(molgen.snapshot(mk), mp) != molgen.snapshot(r):
        rec.count('generator-reject:labels/hydrogens not derivable from the graph')
        return
    if any(not a.is_forming_single_bonds and not r._bonds[n] for n, a in r.atoms()):
        rec.count('skip:unbonded metal atom/ion (RDKit assigns radical electrons by its own convention)')
        return
    if case['form'] == 'thiele':
        r.thiele()
    for _, a in r.atoms():
        a.x, a.y = round(rnd.uniform(-20, 20), 4), round(rnd.uniform(-20, 20), 4)
    label = repr(str(r))
    ref = Chem.MolFromSmiles(str(m))
    if ref is None:
        rec.count('rdkit-rejects-smiles')
        return
    try:
        rd = to_rdkit_molecule(r, keep_mapping=case['mapping'])
    except (ValueError, RuntimeError) as e:  # RDKit sanitisation exceptions derive from these
        if 'rdkit' in type(e).__module__.lower() or 'Sanitiz' in str(e) or 'valence' in str(e).lower() or 'kekul' in str(e).lower():
            rec.count('rdkit-rejects-molecule')
            return
        raise
    if [at.GetFormalCharge() for at in rd.GetAtoms()] != [a.charge for _, a in r.atoms()]:
        rec.count('skip:RDKit sanitisation rewrites charges (e.g. perchlorate): not a molecule both toolkits accept as is')
        return
    rt = r.copy()
    rt.kekule()
    rt.thiele()
    if any(at.GetIsAromatic() != (rt.atom(n).hybridization == 4) for at, n in zip(rd.GetAtoms(), list(r))):
        rec.count('skip:aromaticity models differ (RDKit aromatises a ring chython keeps localised or vice versa)')
        model_differs = True
    else:
        model_differs = False
    pseudo = in_pseudo_domain(m)
    labelled = any(a.stereo is not None for _, a in m.atoms()) or any(b.stereo is not None for *_, b in m.bonds())
    if labelled or any(a.charge or a.isotope for _, a in m.atoms()) or any(b.order == 4 for *_, b in m.bonds()):
        rec.nt(str(m))
    # ---- (1) per-atom payload of to_rdkit
    nums = list(r)
    if rd.GetNumAtoms() != len(r):
        rec.fail('to-atoms', f'{label}: {rd.GetNumAtoms()} RDKit atoms for {len(r)} atoms')
        return
    conf = rd.GetConformer(0) if rd.GetNumConformers() else None
    for i, n in enumerate(nums):
        a, ra = r.atom(n), rd.GetAtomWithIdx(i)
        got = (ra.GetAtomicNum(), ra.GetIsotope() or None, ra.GetFormalCharge(), bool(ra.GetNumRadicalElectrons()),
               ra.GetTotalNumHs(), ra.GetAtomMapNum())
        want = (a.atomic_number, a.isotope, a.charge, a.is_radical, a.implicit_hydrogens, n if case['mapping'] else 0)
        if got != want:
            rec.fail('to-atom', f'{label}: atom {n} converted as {got}, expected {want} '
                                f'(Z, isotope, charge, radical, H, map)', sig='payload')
            return
        if conf is None or abs(conf.GetAtomPosition(i).x - a.x) > 1e-9 or abs(conf.GetAtomPosition(i).y - a.y) > 1e-9:
            rec.fail('to-atom', f'{label}: atom {n} coordinates not copied', sig='xy')
            return
    if not rd_same(rd, ref):
        if pseudo:
            rec.count('pseudo-asymmetric domain: RDKit comparison not asserted')
        else:
            rec.fail('to-structure', f'{label}: to_rdkit gives {Chem.MolToSmiles(rd_strip(Chem.Mol(rd)))!r}, RDKit reads the '
                                     f'SMILES as {Chem.MolToSmiles(rd_strip(Chem.Mol(ref)))!r}', sig='stereo' if labelled else 'graph')
            return
    # ---- (1b) against RDKit's reading of the source text itself (not of the library's own output): a configuration the library
    # dropped while reading would otherwise be invisible.  Only where both readings have the same constitution (tautomer
    # normalisation may move hydrogens) and outside the pseudo-asymmetric domain
    src0 = molgen.spec_smiles(spec)
    if src0 is not None and '|' not in src0 and not in_pseudo_domain_text(src0):
        ref0 = Chem.MolFromSmiles(src0)
        if ref0 is not None and ref0.GetNumAtoms() == ref.GetNumAtoms() and \
                Chem.MolToSmiles(rd_strip(Chem.Mol(ref0)), isomericSmiles=False) == Chem.MolToSmiles(rd_strip(Chem.Mol(ref)), isomericSmiles=False):
            rec.count('compared with the RDKit reading of the source text')
            if not rd_same(rd, ref0):
                rec.fail('to-structure', f'{label}: to_rdkit gives {Chem.MolToSmiles(rd_strip(Chem.Mol(rd)))!r}, RDKit reads the source text '
                                         f'{src0!r} as {Chem.MolToSmiles(rd_strip(Chem.Mol(ref0)))!r}', sig='source-text')
                return
    # ---- (2) from_rdkit(to_rdkit(m)) == m
    ok, back = rec.guard('from', from_rdkit_molecule, rd)
    if not ok:
        return
    if len(back) != len(r):
        rec.fail('round-trip', f'{label}: {len(back)} atoms after the round trip')
        return
    try:
        molgen.normalise(back)
    except molgen.Reject as e:
        from .c05 import exotic_charged_aromatic
        if spec['k'] == 'graph':
            rec.count('skip:RDKit re-aromatised an artificial ring system of the constructive generator')
            return
        if exotic_charged_aromatic(rt):
            rec.count('skip:exotic charged aromatic ring (outside C05 domain)')
            return
        rec.fail('round-trip', f'{label}: result of the round trip cannot be normalised: {e}')
        return
    rn = r.copy()
    rn.kekule()
    rn.thiele()
    bmp = dict(zip(nums, list(back)))
    if model_differs:
        # only composition can be compared: the Kekule structure coming back may be another resonance form
        if sorted((x[:5] for x in molgen.snapshot(rn).values()), key=repr) != \
                sorted((x[:5] for x in molgen.snapshot(back).values()), key=repr):
            rec.fail('round-trip', f'{label}: atoms changed in the round trip', sig='composition')
        return
    if molgen.map_snapshot(molgen.snapshot(rn), bmp) != molgen.snapshot(back) and \
            sorted(b.order for *_, b in rn.bonds()) != sorted(b.order for *_, b in back.bonds()):
        from ..oracles import mcb
        try:
            uniq = mcb.analyse(mcb.mol_adj(rn))['unique']
        except OverflowError:
            uniq = False
        if not uniq:
            rec.count('skip:aromatic form depends on the ring set chosen (minimum cycle basis not unique: C05 known finding)')
            return
    if molgen.map_snapshot(molgen.snapshot(rn), bmp) != molgen.snapshot(back):
        rec.fail('round-trip', f'{label}: from_rdkit(to_rdkit(m)) = {str(back)!r} differs atom-wise', sig='atomwise')
        return
    d = molgen.compare_stereo(rn, back, bmp)
    if d and not (pseudo and in_ring_pseudo_domain(m)):
        rec.fail('round-trip', f'{label}: from_rdkit(to_rdkit(m)) = {str(back)!r}: {d[:3]}', sig=d[0][0])
        return
    if case['mapping'] and [a._parsed_mapping for _, a in back.atoms()] != nums:
        rec.fail('round-trip', f'{label}: atom map numbers not carried back', sig='mapping')
        return
    for (n, a), (k, b) in zip(r.atoms(), back.atoms()):
        if abs(a.x - b.x) > 1e-9 or abs(a.y - b.y) > 1e-9:
            rec.fail('round-trip', f'{label}: coordinates changed in the round trip', sig='xy')
            return
    # ---- (3) to_rdkit(from_rdkit(rd0)) == rd0 for RDKit-originated molecules, and from_rdkit(rd0) == chython's reading
    src = molgen.spec_smiles(spec)
    if src is not None and '|' not in src and spec['k'] == 'corpus':
        rd0 = Chem.MolFromSmiles(src)
        if rd0 is not None:
            if case['rdkit_first'] and any(at.GetIsotope() == 2 for at in rd0.GetAtoms()) is False and rnd.random() < .3:
                rd0 = Chem.AddHs(rd0)
                rec.count('rdkit-originated:with explicit H')
            ok, c = rec.guard('from-rdkit', from_rdkit_molecule, rd0)
            if not ok:
                return
            rec.count('rdkit-originated')
            try:
                c2 = c.copy()
                c2.kekule()  # hydrogens of aromatic atoms can only be folded in on the Kekule form
                c2.implicify_hydrogens()
                molgen.normalise(c2)
            except Exception as e:
                rec.fail('from-rdkit', f'{src!r}: RDKit-originated molecule cannot be normalised: {type(e).__name__}: {e}')
                return
            mine = smiles(src)
            try:
                mine.kekule()
                mine.implicify_hydrogens()
                molgen.normalise(mine)
            except Exception:
                return
            if str(c2) != str(mine) and not in_pseudo_domain(mine):
                if molgen.snapshot(c2, hydrogens=True).values() and sorted(x[:5] for x in molgen.snapshot(c2).values()) == \
                        sorted(x[:5] for x in molgen.snapshot(mine).values()) or True:
                    rec.fail('from-rdkit', f'{src!r}: from_rdkit gives {str(c2)!r}, chython reads {str(mine)!r}',
                             sig='stereo' if str(c2).replace('@', '').replace('/', '').replace('\\', '') ==
                             str(mine).replace('@', '').replace('/', '').replace('\\', '') else 'graph')
                    return
            try:
                rd1 = to_rdkit_molecule(c)
            except Exception:
                rec.count('rdkit-rejects-molecule')
                return
            if not rd_same(rd1, rd0) and not in_pseudo_domain(mine):
                rec.fail('to-from-rdkit', f'{src!r}: to_rdkit(from_rdkit(rd)) = {Chem.MolToSmiles(rd1)!r} != {Chem.MolToSmiles(rd0)!r}')
                return
    rec.sample(case['form'], str(r), cap=5)

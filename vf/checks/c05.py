"""
C05 - Kekule and aromatic forms describe the same molecule; conversions are stable.  DESIGN 2/C05.
"""
import itertools
import random as _random

from hypothesis import strategies as st

from .. import molgen
from ..core import hyp_run, direct_run
from ..oracles import mcb

ID = 'C05'
RULE = ('aromatic / aromatisable molecules: corpus, curated, repository literals, constructive generator and a ring-system '
        'generator (ortho-fused 5/6-rings, hetero atoms N O S Se P B at drawn positions, pyridinium/pyrylium/cyclopentadienide '
        'charges, exocyclic C=O / C=N, biaryl links, substituents) built as Kekule graphs by an independent perfect-matching '
        'routine; each also under a drawn renumbering/rebuild. oracles: invariants of kekule()/thiele() (no aromatic bond left, '
        'no valence error, same connectivity/formula/charges/radicals/per-atom H, idempotence, thiele(kekule(x)) == x), all '
        'enumerated Kekule forms valid, distinct, equal in number to the perfect matchings (pure C / pyridine-N systems) and '
        'aromatising to one form, atom-wise equality of the aromatic form under renumbering, RDKit resonance-equivalence. '
        'the same conversions on one object with drawn reads in between; canonicalize(keep_kekule=True) against canonicalize(). non-trivial = >= 1 aromatic ring; distinct by canonical string'
        '; also: ylidene shard: all pairs of 20 ring ylidene fragments joined by an exocyclic double bond (indigoid, fulvalene, tetrathiafulvalene type). the curated witness list is swept completely on every run.')
ASSUMPTIONS = ['per-atom hydrogen clause asserted with thiele(fix_tautomers=False); the default (True) moves H between ring N atoms by design',
               'enumerated-forms clause not claimed for blocks with an unsaturated four-membered ring (recorded gap), counted',
               'ring systems whose minimum cycle basis is not unique are routed to the known finding on SSSR-dependent aromatisation',
               'input without a Kekule structure must raise InvalidAromaticRing (a pass)']


def shards(tier, seed):
    n = 700 if tier == 'quick' else 8000
    return [dict(shard=i, n=n) for i in range(12)] + [dict(shard='ylidene', n=1 if tier == 'quick' else 4), dict(shard='curated')]


# ring systems joined by an exocyclic double bond (indigoid dyes, isoindigo / indirubin, fulvalenes, tetrathiafulvalenes, aurones,
# merocyanines): (ring atoms after the ylidene carbon, written so that {1} closes onto it)
YLIDENES = ['C(=O)Nc{2}ccccc{1}{2}', 'C(=O)c{2}ccccc{2}N{1}', 'C(=O)c{2}ccccc{2}O{1}', 'C(=O)c{2}ccccc{2}S{1}', 'C(=O)c{2}ccccc{2}C{1}',
            'C=CC=C{1}', 'C=COC=C{1}', 'c{2}ccccc{2}-c{2}ccccc{1}{2}', 'c{2}ccccc{2}C(=O)c{2}ccccc{1}{2}', 'C=CC=CC=C{1}',
            'C(=O)N(C)N=C{1}C', 'C(=O)NC(=S)S{1}', 'C(=O)NC(=O)NC{1}=O', 'SC=CS{1}', 'Sc{2}ccccc{2}S{1}',
            'c{2}ccccc{2}Sc{2}ccccc{1}{2}', 'C=CC(=O)C=C{1}', 'c{2}ccccc{2}N(C)c{2}ccccc{1}{2}', 'C(=O)Nc{2}ncccc{1}{2}',
            'C(=O)c{2}cc(Br)ccc{2}N{1}']
PARTNERS = ['C(C)C', 'Cc{1}ccccc{1}', 'Cc{1}ccc(cc{1})N(C)C', 'CC=Cc{1}ccccc{1}', 'Cc{1}ccco{1}', 'Cc{1}c[nH]c{2}ccccc{1}{2}']


def ylidene_cases(seed, rounds):
    def text(t, base):
        return t.replace('{1}', f'%{base + 1}').replace('{2}', f'%{base + 2}')
    k = 0
    for r in range(rounds):
        for a in YLIDENES:
            for b in YLIDENES:
                k += 1
                yield {'mol': {'k': 'smi', 's': f'C%11(=C%21{text(b, 20)}){text(a, 10)}'}, 'seed': seed * 7919 + k, 'ylidene': True}
            for b in PARTNERS:
                k += 1
                yield {'mol': {'k': 'smi', 's': f'C%11(={text(b, 20)}){text(a, 10)}'}, 'seed': seed * 7919 + k, 'ylidene': True}


def run_shard(shard, tier, seed):
    if shard['shard'] == 'curated':
        # the curated witnesses are swept completely on every run (drawn cases meet a given witness only now and then)
        return direct_run(ID, [{'mol': {'k': 'smi', 's': s}, 'seed': seed * 7919 + i} for i, s in enumerate(molgen.curated())], check_case)
    if shard['shard'] == 'ylidene':
        return direct_run(ID, ylidene_cases(seed, shard['n']), check_case)
    strat = st.fixed_dictionaries({
        'mol': st.one_of(ring_systems(), ring_systems(), molgen.mol_specs(max_atoms=14, corpus_w=6, curated_w=3, graph_w=3,
                                                                           literal_w=2, sym_w=1)),
        'seed': st.integers(0, 2 ** 31)})
    return hyp_run(ID, strat, check_case, max_examples=shard['n'], seed=seed * 1000 + shard['shard'])


# ---------------------------------------------------------------------------------------------------
# ring system generator (Kekule graphs by construction)

def _matching(nodes, adj, limit=1):
    """perfect matchings of the graph induced on `nodes` (list of frozenset pairs), up to `limit` solutions"""
    out = []
    nodes = sorted(nodes)

    def rec(free, cur):
        if len(out) >= limit:
            return
        if not free:
            out.append(list(cur))
            return
        v = min(free)
        for w in adj[v]:
            if w in free and w != v:
                cur.append(frozenset((v, w)))
                rec(free - {v, w}, cur)
                cur.pop()
    rec(frozenset(nodes), [])
    return out


@st.composite
def ring_systems(draw):
    # skeleton: ortho-fused rings
    sizes = [draw(st.sampled_from([6, 6, 6, 5, 5, 7]))]
    ring0 = list(range(sizes[0]))
    atoms = {i: None for i in ring0}
    edges = {frozenset((ring0[i], ring0[(i + 1) % len(ring0)])) for i in range(len(ring0))}
    rings = [ring0]
    for _ in range(draw(st.integers(0, 3))):
        deg = {a: sum(1 for e in edges if a in e) for a in atoms}
        fus = sorted(tuple(sorted(e)) for e in edges if all(deg[x] == 2 for x in e))
        if not fus:
            break
        a, b = fus[draw(st.integers(0, len(fus) - 1))]
        sz = draw(st.sampled_from([6, 6, 5]))
        new = [max(atoms) + 1 + i for i in range(sz - 2)]
        for x in new:
            atoms[x] = None
        chain = [a] + new + [b]
        for x, y in zip(chain, chain[1:]):
            edges.add(frozenset((x, y)))
        rings.append(chain)
    adj = {a: set() for a in atoms}
    for e in edges:
        x, y = tuple(e)
        adj[x].add(y)
        adj[y].add(x)
    # pyrrole-type positions: every odd ring needs one sp3-like member (X:) or an exocyclic double bond or a charge
    kind = {a: 'c' for a in atoms}  # c, n (pyridine), X (pyrrole type), co (exocyclic C=O)
    elem = {a: 'C' for a in atoms}
    charge = {a: 0 for a in atoms}
    for r in rings:
        if len(r) % 2:
            cand = [a for a in r if len(adj[a]) == 2 and kind[a] == 'c']
            if any(kind[a] in ('X', 'co') for a in r):
                continue
            if not cand:
                cand = [a for a in r if kind[a] == 'c']
            a = cand[draw(st.integers(0, len(cand) - 1))]
            t = draw(st.sampled_from(['NH', 'NR', 'O', 'S', 'Se', 'co', 'C-', 'PH', 'BH', 'NH', 'O', 'S'])) \
                if len(adj[a]) == 2 else draw(st.sampled_from(['N', 'N', 'B']))
            if t in ('C-', 'C+') and any(charge.values()):
                t = 'NH'  # at most one carbon ion per ring system (cyclopentadienide / tropylium as documented)
            if len(r) == 7:
                t = draw(st.sampled_from(['co', 'BH'] + ([] if any(charge.values()) else ['C+']))) if len(adj[a]) == 2 else 'B'
            kind[a] = 'X'
            if t == 'co':
                kind[a] = 'co'
            elif t in ('C-', 'C+'):
                charge[a] = -1 if t == 'C-' else 1
            else:
                elem[a] = t.rstrip('HR')
                kind[a] = 'X' + ('R' if t == 'NR' else '')
    # pyridine-type N, extra exocyclic C=O (quinoid), charges
    for a in sorted(atoms):
        if kind[a] == 'c' and len(adj[a]) == 2:
            c = draw(st.sampled_from(['c'] * 8 + ['n', 'n', 'co', 'n+', 'o+']))
            if c == 'n':
                elem[a] = 'N'
            elif c == 'co':
                kind[a] = 'co'
            elif c == 'n+':
                elem[a], charge[a], kind[a] = 'N', 1, 'n+'
            elif c in ('o+', 's+'):
                elem[a], charge[a] = c[0].upper(), 1
    sp2 = [a for a in atoms if kind[a] in ('c', 'n+')]
    ms = _matching(sp2, adj, limit=1)
    if not ms:
        # make it matchable: turn unmatched leftovers into exocyclic carbonyl carbons greedily
        for a in sorted(sp2):
            if kind[a] == 'c' and elem[a] == 'C' and len(adj[a]) == 2:
                kind[a] = 'co'
                sp2 = [x for x in atoms if kind[x] in ('c', 'n+')]
                ms = _matching(sp2, adj, limit=1)
                if ms:
                    break
    if not ms:
        kind = {a: 'sat' for a in atoms}  # saturated system (still a valid input: nothing to aromatise)
        ms = [[]]
    double = set(ms[0])
    out_atoms, index = [], {}
    for a in sorted(atoms):
        index[a] = len(out_atoms)
        out_atoms.append([elem[a], charge[a], None, False])
    bonds = [[index[min(e)], index[max(e)], 2 if e in double else 1] for e in sorted(edges, key=sorted)]
    # exocyclic parts and substituents
    for a in sorted(atoms):
        if kind[a] == 'co':
            out_atoms.append([draw(st.sampled_from(['O', 'O', 'N', 'S', 'C'])), 0, None, False])
            bonds.append([index[a], len(out_atoms) - 1, 2])
        elif kind[a] in ('XR', 'n+') and len(adj[a]) == 2:
            out_atoms.append(['C', 0, None, False])
            bonds.append([index[a], len(out_atoms) - 1, 1])
        elif kind[a] == 'c' and len(adj[a]) == 2 and elem[a] == 'C' and draw(molgen._rare(5)):
            sub = draw(st.sampled_from(['C', 'N', 'O', 'F', 'Cl', 'aryl']))
            if sub == 'aryl':  # biaryl link to a benzene ring
                base = len(out_atoms)
                for _k in range(6):
                    out_atoms.append(['C', 0, None, False])
                for k in range(6):
                    bonds.append([base + k, base + (k + 1) % 6, 2 if k % 2 == 0 else 1])
                bonds.append([index[a], base, 1])
            else:
                out_atoms.append([sub, 0, None, False])
                bonds.append([index[a], len(out_atoms) - 1, 1])
    return {'k': 'graph', 'atoms': out_atoms, 'bonds': bonds, 'stereo': [], 'ringsys': True}


# ---------------------------------------------------------------------------------------------------

def orders(m):
    return {frozenset((a, b)): bond.order for a, b, bond in m.bonds()}


def per_atom(m):
    return {n: (a.atomic_number, a.isotope, a.charge, a.is_radical, a.implicit_hydrogens) for n, a in m.atoms()}


def four_ring_gap(m):
    """an unsaturated four-membered ring inside an aromatic system (biphenylene type): recorded gap for enumerate_kekule"""
    adj = mcb.mol_adj(m)
    try:
        ref = mcb.analyse(adj)
    except OverflowError:
        return True
    for r in ref['relevant']:
        if len(r) == 4 and sum(any(b.order in (2, 4) for b in m._bonds[a].values()) for a in r) >= 2:
            return True
    return False


def count_matchings(m, limit=65):
    """number of Kekule structures by perfect matching, or None when the simple model is not exact for this molecule"""
    ar = {n for n, nb in m._bonds.items() if any(b.order == 4 for b in nb.values())}
    if not ar:
        return None
    for n in ar:
        a = m.atom(n)
        if a.charge or a.is_radical or a.atomic_number not in (6, 7):
            return None
        if any(b.order in (2, 3) for b in m._bonds[n].values()):
            return None
        nar = sum(b.order == 4 for b in m._bonds[n].values())
        total = len(m._bonds[n]) + (a.implicit_hydrogens or 0)
        if a.atomic_number == 6 and total != 3:
            return None
        if a.atomic_number == 7 and (total != 2 or nar != 2):
            return None  # pyrrole-type or substituted N: not in the exact model
    adj = {n: {k for k, b in m._bonds[n].items() if b.order == 4} for n in ar}
    return len(_matching(ar, adj, limit=limit))


def exotic_charged_aromatic(a):
    """charged ring atoms outside the classes the property names (pyridinium, pyrylium, cyclopentadienide)"""
    ch = [(n, x) for n, x in a.atoms() if x.charge and any(b.order == 4 for b in a._bonds[n].values())]
    carb = 0
    for n, x in ch:
        if (x.atomic_number, x.charge) in ((7, 1), (8, 1), (16, 1)):
            continue
        if (x.atomic_number, x.charge) == (6, -1):
            carb += 1
            continue
        return True
    return carb > 1 or (carb == 1 and len(ch) > 1)


def check_case(case, rec):
    from chython.exceptions import InvalidAromaticRing
    spec = case['mol']
    try:
        raw = molgen.build_raw(spec)
    except molgen.Reject as e:
        rec.count(f'generator-reject:{e}')
        return
    if not len(raw):
        return
    if spec['k'] == 'graph' and raw.check_valence():
        rec.count('generator-reject:valence invalid')
        return
    label = molgen.spec_smiles(spec) or str(raw)
    rec.count('source:ringsys' if spec.get('ringsys') else f'source:{spec["k"]}')
    conn0 = {n: frozenset(nb) for n, nb in raw._bonds.items()}
    # ---- kekule of the input as given (aromatic text or Kekule graph)
    mk = raw.copy()
    try:
        mk.kekule()
    except InvalidAromaticRing:
        rec.count('input-without-kekule-form (InvalidAromaticRing raised: pass)')
        return
    if any(b.order == 4 for *_, b in mk.bonds()):
        rec.fail('kekule-complete', f'{label!r}: aromatic bond left after kekule()')
        return
    bad = mk.check_valence()
    if bad:
        if raw.check_valence() and not any(b.order == 4 for *_, b in raw.bonds()):
            rec.count('generator-reject:valence invalid input')
            return
        rec.fail('kekule-valence', f'{label!r}: valence errors {bad} after kekule() -> {str(mk)!r}')
        return
    if {n: frozenset(nb) for n, nb in mk._bonds.items()} != conn0:
        rec.fail('connectivity', f'{label!r}: kekule() changed connectivity')
        return
    k1 = orders(mk)
    mk2 = mk.copy()
    mk2.kekule()
    if orders(mk2) != k1 or per_atom(mk2) != per_atom(mk):
        rec.fail('kekule-idempotent', f'{label!r}: second kekule() changed {str(mk)!r} -> {str(mk2)!r}')
        return
    # ---- thiele without tautomer fixing: everything preserved per atom
    a = mk.copy()
    a.thiele(fix_tautomers=False)
    if per_atom(a) != per_atom(mk):
        d = [(n, per_atom(mk)[n], per_atom(a)[n]) for n in per_atom(mk) if per_atom(mk)[n] != per_atom(a)[n]][:3]
        rec.fail('thiele-per-atom', f'{str(mk)!r} -> {str(a)!r}: atom data changed {d}')
        return
    if {n: frozenset(nb) for n, nb in a._bonds.items()} != conn0:
        rec.fail('connectivity', f'{label!r}: thiele() changed connectivity')
        return
    if any(x != y and 4 not in (x, y) for x, y in ((k1[e], o) for e, o in orders(a).items())):
        rec.fail('thiele-nonaromatic-bonds', f'{str(mk)!r} -> {str(a)!r}: a non-aromatised bond changed order')
        return
    aromatic = any(b.order == 4 for *_, b in a.bonds())
    if aromatic and exotic_charged_aromatic(a):
        rec.count('out-of-domain:charged aromatic atoms other than pyridinium / pyrylium / one cyclopentadienide carbon')
        return
    if aromatic:
        rec.nt(str(a))
    a2 = a.copy()
    a2.thiele(fix_tautomers=False)
    if orders(a2) != orders(a) or per_atom(a2) != per_atom(a):
        rec.fail('thiele-idempotent', f'{str(a)!r}: second thiele() changed it to {str(a2)!r}')
        return
    try:
        unique_mcb = mcb.analyse(mcb.mol_adj(a))['unique']
    except OverflowError:
        unique_mcb = False
    sig_mcb = '' if unique_mcb else 'thiele-mcb-not-unique'
    # ---- back: kekule(thiele(x)) valid, thiele(kekule(thiele(x))) == thiele(x)
    b = a.copy()
    try:
        b.kekule()
    except InvalidAromaticRing as e:
        rec.fail('rekekule', f'{str(a)!r} (thiele form of {str(mk)!r}) has no Kekule form: {e}', sig=sig_mcb)
        return
    if any(x.order == 4 for *_, x in b.bonds()) or b.check_valence():
        rec.fail('rekekule', f'{str(a)!r} -> {str(b)!r}: aromatic bond or valence error left', sig=sig_mcb)
        return
    if per_atom(b) != per_atom(mk):
        rec.fail('rekekule-per-atom', f'{str(mk)!r} -> {str(a)!r} -> {str(b)!r}: per-atom data not preserved', sig=sig_mcb)
        return
    c = b.copy()
    c.thiele(fix_tautomers=False)
    if orders(c) != orders(a):
        rec.fail('round-trip', f'{str(a)!r} -> {str(b)!r} -> {str(c)!r}: aromatic form not restored', sig=sig_mcb)
        return
    # ---- the same conversions on ONE object with derived values read in between (caches warm from the other representation):
    # kekule -> [reads] -> kekule (no-op) -> [reads] -> thiele -> [reads] -> kekule -> [reads] -> thiele must give the same forms
    w = raw.copy()
    wr = _random.Random(case['seed'])

    def warm():
        from chython import smarts
        for k in range(wr.randrange(4)):
            what = wr.randrange(6)
            try:
                if what == 0:
                    str(w)
                elif what == 1:
                    w._cython_compiled_structure
                elif what == 2:
                    list(smarts('[#6,#7]~[#6]').get_mapping(w))[:1]
                elif what == 3:
                    w.kekule() if not any(x.order == 4 for *_, x in w.bonds()) else None
                elif what == 4:
                    w.atoms_order, w.sssr
                else:
                    next(iter(w.enumerate_kekule()), None) if not any(x.order == 4 for *_, x in w.bonds()) else None
            except InvalidAromaticRing:
                pass
    ok, _ = rec.guard('warm-sequence', lambda: (w.kekule(), warm(), w.thiele(fix_tautomers=False)))
    if not ok:
        return
    if orders(w) != orders(a) or per_atom(w) != per_atom(a):
        rec.fail('warm-sequence', f'{label!r}: kekule(), reads, thiele() on one object gives {str(w)!r}, on fresh copies {str(a)!r}',
                 sig='thiele' + sig_mcb)
        return
    ok, _ = rec.guard('warm-sequence', lambda: (warm(), w.kekule(), warm(), w.thiele(fix_tautomers=False)))
    if not ok:
        return
    if orders(w) != orders(a) or per_atom(w) != per_atom(a):
        rec.fail('warm-sequence', f'{label!r}: aromatic form not restored by kekule(), reads, thiele() on one object: {str(w)!r} vs '
                                  f'{str(a)!r}', sig='round-trip' + sig_mcb)
        return
    rec.count('warm-sequences')
    # ---- default thiele (tautomer fixing): composition preserved, idempotent
    t = mk.copy()
    t.thiele()
    if t.brutto != mk.brutto or int(t) != int(mk) or t.is_radical != mk.is_radical or \
            {n: frozenset(nb) for n, nb in t._bonds.items()} != conn0:
        rec.fail('thiele-default-composition', f'{str(mk)!r} -> {str(t)!r}: formula/charge/connectivity changed')
        return
    for n in t:
        pa, pt = per_atom(mk)[n], per_atom(t)[n]
        if pa != pt and not (pa[0] == 7 and pa[:4] == pt[:4] and t.atom(n).in_ring):
            rec.fail('thiele-default-scope', f'{str(mk)!r} -> {str(t)!r}: atom {n} changed beyond H on a ring nitrogen')
            return
    t2 = t.copy()
    t2.thiele()
    if orders(t2) != orders(t) or per_atom(t2) != per_atom(t):
        rec.fail('thiele-default-idempotent', f'{str(t)!r}: second thiele() gives {str(t2)!r}')
        return
    # ---- canonicalize(keep_kekule=True): the Kekule form handed back must belong to the aromatic form canonicalize() gives
    # (same per-atom hydrogens, a valid state on every atom, re-aromatising to that form) - also when tautomer fixing moved a hydrogen
    if aromatic and not mk.check_valence():
        from ..oracles import valence_ref
        ck, ca = mk.copy(), mk.copy()
        from ..oracles import wl
        try:
            ck.canonicalize(keep_kekule=True)
            ca.canonicalize()
            ok = True
        except Exception as e:
            from ..core import chython_frame
            ok = False
            rec.fail('canonicalize', f'{label!r}: canonicalize raised {type(e).__name__}: {e}',
                     sig='fused-cp-anion' if wl.fused_cp_anion(mk) else f'{type(e).__name__}@{chython_frame(e.__traceback__)}')
        if ok and (ca.check_valence() or any(at.implicit_hydrogens is None for _, at in ca.atoms())):
            rec.count('keep-kekule:skip (canonicalize() itself reports an invalid result: C14 matter)')
        elif ok and not any(x.order == 4 for *_, x in ck.bonds()) and len(ck) == len(ca):
            for n, at in ck.atoms():
                if at.implicit_hydrogens not in valence_ref.implicit_h_all(at, valence_ref.atom_neighbours(ck, n)):
                    rec.fail('keep-kekule', f'{label!r}: canonicalize(keep_kekule=True) gives {str(ck)!r}: atom {n} ({at.atomic_symbol}) keeps '
                                            f'{at.implicit_hydrogens} hydrogens, not a state of the element tables for its bonds',
                             sig='fused-cp-anion' if wl.fused_cp_anion(mk) else 'stored-H')
                    return
            if per_atom(ck) != per_atom(ca):
                rec.fail('keep-kekule', f'{label!r}: per-atom data of canonicalize(keep_kekule=True) {str(ck)!r} differ from canonicalize() '
                                        f'{str(ca)!r}', sig='fused-cp-anion' if wl.fused_cp_anion(mk) else 'per-atom')
                return
            rec.count('keep-kekule-compared')
    # ---- enumerated Kekule forms
    if aromatic:
        gap4 = four_ring_gap(a)
        forms = []
        ok, it = rec.guard('enumerate', lambda: itertools.islice(a.enumerate_kekule(), 65), expected=(InvalidAromaticRing,))
        if ok:
            ok, forms = rec.guard('enumerate', list, it, expected=(InvalidAromaticRing,))
        if ok and len(forms) <= 64:
            if gap4:
                rec.count('excluded:four-ring-gap (enumeration clause)')
            else:
                seen = set()
                for f in forms:
                    key = tuple(sorted((tuple(sorted(e)), o) for e, o in orders(f).items()))
                    if key in seen:
                        rec.fail('enumerate-distinct', f'{str(a)!r}: enumerate_kekule() repeated {str(f)!r}', sig=sig_mcb)
                        return
                    seen.add(key)
                    if any(x.order == 4 for *_, x in f.bonds()) or f.check_valence():
                        rec.fail('enumerate-valid', f'{str(a)!r}: enumerated form {str(f)!r} invalid', sig=sig_mcb)
                        return
                    if per_atom(f) != per_atom(a):
                        rec.fail('enumerate-per-atom', f'{str(a)!r}: enumerated form {str(f)!r} changes atom data', sig=sig_mcb)
                        return
                    g = f.copy()
                    g.thiele(fix_tautomers=False)
                    if orders(g) != orders(a):
                        rec.fail('enumerate-same-aromatic-form', f'{str(a)!r}: form {str(f)!r} aromatises to {str(g)!r}',
                                 sig=sig_mcb)
                        return
                if not forms:
                    rec.fail('enumerate-nonempty', f'{str(a)!r}: no Kekule form enumerated although kekule() succeeds')
                    return
                if key_of(b) not in seen:
                    rec.fail('enumerate-contains-kekule', f'{str(a)!r}: kekule() result {str(b)!r} is not among the enumerated forms',
                             sig=sig_mcb)
                    return
                nm = count_matchings(a)
                if nm is not None and nm <= 64:
                    rec.count('enumeration-compared-with-matchings')
                    if nm != len(forms):
                        rec.fail('enumerate-count', f'{str(a)!r}: {len(forms)} forms enumerated, {nm} perfect matchings',
                                 sig=sig_mcb)
                        return
        elif ok:
            rec.count('skip:more-than-64-forms')
    # ---- numbering independence (atom-wise, so no canonicaliser involved)
    r, mp, left = molgen.rebuild(mk, case['seed'])
    ok, _ = rec.guard('renumbered-thiele', lambda: r.thiele(fix_tautomers=False))
    if ok:
        want = {frozenset((mp[x], mp[y])): o for (x, y), o in ((tuple(e), o) for e, o in orders(a).items())}
        if orders(r) != want:
            rec.fail('numbering-independence', f'{str(mk)!r}: aromatic form {str(a)!r} vs {str(r)!r} after renumbering',
                     sig=sig_mcb)
            return
    # ---- RDKit: input Kekule form and round-tripped Kekule form are resonance forms of one molecule
    if aromatic and not any(x.order == 8 for *_, x in mk.bonds()):
        try:
            from rdkit import Chem
            ra, rb = Chem.MolFromSmiles(str(mk)), Chem.MolFromSmiles(str(b))
            if ra is not None and rb is not None:
                rec.count('rdkit:compared')
                if Chem.MolToSmiles(ra) != Chem.MolToSmiles(rb) and not (ra.HasSubstructMatch(rb) and rb.HasSubstructMatch(ra)
                                                                          and ra.GetNumAtoms() == rb.GetNumAtoms()):
                    # RDKit's own aromaticity model decides resonance equivalence; only meaningful if it aromatises both
                    if any(x.GetIsAromatic() for x in ra.GetAtoms()) and any(x.GetIsAromatic() for x in rb.GetAtoms()):
                        rec.fail('rdkit-resonance', f'{str(mk)!r} and {str(b)!r} are different molecules for RDKit', sig=sig_mcb)
                        return
                    rec.count('rdkit:not-aromatic-for-rdkit')
            else:
                rec.count('rdkit:rejects')
        except ImportError:
            rec.count('rdkit-missing')
    if aromatic:
        rec.sample('ringsys' if spec.get('ringsys') else spec['k'], str(a), cap=5)


def key_of(m):
    return tuple(sorted((tuple(sorted(e)), o) for e, o in orders(m).items()))

"""
C17 - fingerprints are structure functions with the documented fragment semantics.  DESIGN 2/C17.
"""
import math
import random as _random

from hypothesis import strategies as st

from .. import molgen
from ..core import hyp_run, direct_run

ID = 'C17'
RULE = ('generated molecules (corpus, curated, literals, constructive, symmetric; normal state) x drawn rebuild/renumbering x parameter '
        'grid (min/max radius 1-6, length 2^4..2^12, active bits 1-4, bit pairs 0-5): hash sets, bit sets, arrays and the key sets '
        'of the fragment dictionaries must be invariant; the linear hash set must equal the set computed by an independent '
        'simple-path enumerator with the documented multiplicity cap, the Morgan set the iterated neighbourhood identifiers of the '
        'requested radii; bits must follow (h >> k*log2 L) & (L-1) for k < active bits. non-trivial = molecule has a repeated '
        'fragment or a ring; distinct by (canonical string, parameters)'
        '; also: Morgan environment strings against independently cut neighbourhoods.'
        '; also: the curated witness list is swept completely on every run.')
ASSUMPTIONS = ['hash composition hash((*labels, count_index)) and atom identifier hash((isotope or 0, Z, charge, radical)) are taken '
               'as the format definition (they are the published fingerprint format)',
               'fragment SMILES values of the dictionaries are compared as sets only where every atom of the molecule formats '
               'identically for equal identifiers; otherwise only the key sets (the writer picks one representative fragment)']


def shards(tier, seed):
    n = 200 if tier == 'quick' else 4000
    return [dict(shard=i, n=n) for i in range(12)] + [dict(shard='curated')]


def run_shard(shard, tier, seed):
    if shard['shard'] == 'curated':
        # the curated witnesses are swept completely on every run (drawn cases meet a given witness only now and then)
        return direct_run(ID, [{'mol': {'k': 'smi', 's': s}, 'lo': 1 + i % 3, 'span': (i // 3) % 4, 'logL': 10 + i % 3, 'bits': 1 + i % 3,
                                'pairs': i % 4, 'seed': seed * 7919 + i} for i, s in enumerate(molgen.curated())], check_case)
    strat = st.fixed_dictionaries({
        'mol': molgen.mol_specs(max_atoms=14, corpus_w=5, curated_w=3, graph_w=5, literal_w=1, sym_w=3),
        'lo': st.integers(1, 6), 'span': st.integers(0, 4), 'logL': st.integers(4, 12), 'bits': st.integers(1, 4),
        'pairs': st.integers(0, 5), 'seed': st.integers(0, 2 ** 31)})
    return hyp_run(ID, strat, check_case, max_examples=shard['n'], seed=seed * 1000 + shard['shard'])


def ident(a):
    return hash((a.isotope or 0, a.atomic_number, a.charge, a.is_radical))


def ref_linear(m, lo, hi, cap):
    """all undirected simple paths with lo..hi atoms -> label sequence (max of both directions) -> counts -> hashes"""
    ids = {n: ident(a) for n, a in m.atoms()}
    counts = {}
    paths = set()
    for s in m:
        stack = [(s,)]
        while stack:
            p = stack.pop()
            if lo <= len(p) <= hi:
                paths.add(p if p >= p[::-1] else p[::-1])
            if len(p) < hi:
                for k in m._bonds[p[-1]]:
                    if k not in p:
                        stack.append(p + (k,))
    for p in paths:
        seq = [ids[p[0]]]
        for x, y in zip(p, p[1:]):
            seq.append(int(m._bonds[x][y]))
            seq.append(ids[y])
        seq = tuple(seq)
        key = max(seq, seq[::-1])
        counts[key] = counts.get(key, 0) + 1
    cap = cap or 10 ** 9
    return {hash((*k, c)) for k, n in counts.items() for c in range(min(n, cap))}, counts


def ref_morgan(m, lo, hi):
    cur = {n: ident(a) for n, a in m.atoms()}
    levels = [cur]
    for _ in range(1, hi):
        nxt = {}
        for n in cur:
            flat = []
            for o, i in sorted((int(b), cur[k]) for k, b in m._bonds[n].items()):
                flat += [o, i]
            nxt[n] = hash((cur[n], *flat))
        cur = nxt
        levels.append(cur)
    return {v for lvl in levels[lo - 1:hi] for v in lvl.values()}


def ref_bits(hashes, L, active):
    log = int(math.log2(L))
    out = set()
    for h in hashes:
        for k in range(active):
            out.add((h >> (k * log)) & (L - 1))
    return out


def check_case(case, rec):
    try:
        m = molgen.build(case['mol'])
    except molgen.Reject as e:
        rec.count(f'generator-reject:{e}')
        return
    if len(m) > 45:
        rec.count('skip:large')
        return
    lo, hi = case['lo'], min(case['lo'] + case['span'], 6)
    L, act, cap = 2 ** case['logL'], case['bits'], case['pairs']
    ms = str(m)
    params = f'radius {lo}-{hi}, length {L}, active bits {act}, bit pairs {cap}'
    # --- reference semantics
    ok, lin = rec.guard('linear', m.linear_hash_set, lo, hi, cap)
    if not ok:
        return
    want, counts = ref_linear(m, lo, hi, cap)
    if lin != want:
        rec.fail('linear-fragments', f'{ms!r} {params}: {len(lin)} hashes, reference path enumeration gives {len(want)} '
                                     f'({len(lin - want)} extra, {len(want - lin)} missing)', sig='extra' if lin - want else 'missing')
        return
    if any(v > 1 for v in counts.values()) or m.rings_count:
        rec.nt((ms, lo, hi, L, act, cap))
    ok, mor = rec.guard('morgan', m.morgan_hash_set, lo, hi)
    if not ok:
        return
    wantm = ref_morgan(m, lo, hi)
    if mor != wantm:
        rec.fail('morgan-identifiers', f'{ms!r} radius {lo}-{hi}: {len(mor)} identifiers, reference neighbourhood hashing {len(wantm)} '
                                       f'({len(mor - wantm)} extra, {len(wantm - mor)} missing)')
        return
    for kind, hashes, bit_f, arr_f, args in (('linear', lin, m.linear_bit_set, m.linear_fingerprint, (lo, hi, L, act, cap)),
                                             ('morgan', mor, m.morgan_bit_set, m.morgan_fingerprint, (lo, hi, L, act))):
        ok, bits = rec.guard(f'{kind}-bits', bit_f, *args)
        if not ok:
            return
        wb = ref_bits(hashes, L, act)
        if bits != wb or any(not 0 <= b < L for b in bits):
            rec.fail('bits', f'{ms!r} {kind} {params}: bit set differs from the documented folding '
                             f'({len(bits)} vs {len(wb)}; out of range: {[b for b in bits if not 0 <= b < L][:3]})', sig=kind)
            return
        ok, arr = rec.guard(f'{kind}-array', arr_f, *args)
        if not ok:
            return
        if len(arr) != L or {i for i, v in enumerate(arr) if v} != bits or any(v not in (0, 1) for v in arr):
            rec.fail('array', f'{ms!r} {kind} {params}: array does not have exactly the bit-set ones', sig=kind)
            return
    ok, lhs = rec.guard('linear-dict', m.linear_hash_smiles, lo, hi, cap)
    if not ok:
        return
    if set(lhs) != lin:
        rec.fail('dict-keys', f'{ms!r} {params}: linear_hash_smiles keys differ from linear_hash_set', sig='linear')
        return
    ok, mhs = rec.guard('morgan-dict', m.morgan_hash_smiles, lo, hi)
    if not ok:
        return
    if set(mhs) != mor:
        rec.fail('dict-keys', f'{ms!r}: morgan_hash_smiles keys differ from morgan_hash_set', sig='morgan')
        return
    # --- invariance under rebuild / renumbering
    mk = m.copy()
    mk.kekule()
    r, mp, left = molgen.rebuild(mk, case['seed'])
    if left or molgen.map_snapshot(molgen.snapshot(mk), mp) != molgen.snapshot(r):
        rec.count('generator-reject:labels/hydrogens not derivable')
        return
    r.thiele()
    if sorted(b.order for *_, b in r.bonds()) != sorted(b.order for *_, b in m.bonds()):
        rec.count('skip:aromatic perception differs after rebuild (C05 matter)')
        return
    for name, a, b in (('linear_hash_set', lin, r.linear_hash_set(lo, hi, cap)), ('morgan_hash_set', mor, r.morgan_hash_set(lo, hi)),
                       ('linear_bit_set', m.linear_bit_set(lo, hi, L, act, cap), r.linear_bit_set(lo, hi, L, act, cap)),
                       ('morgan_bit_set', m.morgan_bit_set(lo, hi, L, act), r.morgan_bit_set(lo, hi, L, act)),
                       ('linear_hash_smiles keys', set(lhs), set(r.linear_hash_smiles(lo, hi, cap))),
                       ('morgan_hash_smiles keys', set(mhs), set(r.morgan_hash_smiles(lo, hi)))):
        if a != b:
            rec.fail('numbering-invariance', f'{ms!r} {params}: {name} changes under renumbering / insertion order', sig=name.split()[0])
            return
    if list(m.linear_fingerprint(lo, hi, L, act, cap)) != list(r.linear_fingerprint(lo, hi, L, act, cap)) or \
            list(m.morgan_fingerprint(lo, hi, L, act)) != list(r.morgan_fingerprint(lo, hi, L, act)):
        rec.fail('numbering-invariance', f'{ms!r} {params}: fingerprint arrays change under renumbering', sig='array')
        return
    # fragment strings: comparable only if atoms with equal identifier always format equally
    fmt = {}
    uniform = True
    for n, a in m.atoms():
        t = m._format_atom(n, None, stereo=False)
        if fmt.setdefault(ident(a), t) != t:
            uniform = False
    if uniform:
        rl = r.linear_hash_smiles(lo, hi, cap)
        if {k: sorted(v) for k, v in lhs.items()} != {k: sorted(v) for k, v in rl.items()}:
            rec.fail('numbering-invariance', f'{ms!r} {params}: linear_hash_smiles fragment strings change under renumbering',
                     sig='linear-values')
            return
        rm = r.morgan_hash_smiles(lo, hi)
        unlabelled = not any(a.stereo is not None for _, a in m.atoms()) and not any(b.stereo is not None for *_, b in m.bonds()) \
            and not any(a.charge or a.is_radical for _, a in m.atoms()) and not any(b.order == 4 for *_, b in m.bonds())
        # environment strings are canonical SMILES of substructures; with stereo labels a cut-out environment may or may not keep a
        # label depending on what was cut, so only label-free, uncharged, non-aromatic molecules are compared (resonance-equivalent atoms are distinct in a cut-out fragment)
        if unlabelled and {k: sorted(v) for k, v in mhs.items()} != {k: sorted(v) for k, v in rm.items()}:
            from ..oracles import wl
            try:
                col, adj = wl.constitution(m)
                gap = bool(wl.local_swap_ok(col, adj)) or wl.gap_b(m, wl.orbits(col, adj))
            except TimeoutError:
                gap = True
            if not gap:
                # the strings are canonical SMILES of cut-out environments: an environment can fall into a C01 finding although the
                # whole molecule does not (ethylcyclooctatetraene: the radius-4 environment opposite to the substituent is the bare
                # Kekule annulene) - judge the environments that differ
                from chython import smiles as _smiles
                for k in set(mhs) | set(rm):
                    if sorted(mhs.get(k, ())) != sorted(rm.get(k, ())):
                        for t in set(mhs.get(k, ())) | set(rm.get(k, ())):
                            try:
                                frag = _smiles(t)
                                c2, a2 = wl.constitution(frag)
                                if wl.local_swap_ok(c2, a2) or wl.gap_b(frag, wl.orbits(c2, a2)):
                                    gap = True
                            except TimeoutError:
                                gap = True
                            except Exception:
                                pass
            if gap or any(b.order == 8 for *_, b in m.bonds()):
                rec.count('morgan environment strings differ inside a C01 gap / known finding (canonical strings of fragments: not asserted)')
                gap = True
        else:
            gap = True
        if not gap:
            rec.fail('numbering-invariance', f'{ms!r} radius {lo}-{hi}: morgan_hash_smiles environment strings change under renumbering',
                     sig='morgan-values')
            return
        rec.count('fragment-strings-compared')
    rec.sample('params', dict(molecule=ms, params=params, linear=len(lin), morgan=len(mor)), cap=5)

"""
C09 - compiled (bit-mask) matcher and reference matcher return the same mappings.  DESIGN 2/C09.
The compiled matcher is the repository's _isomorphism.pyx executed by the pyx transliterator (no Cython in this sandbox).
"""
import random as _random

from hypothesis import strategies as st

from .. import molgen
from ..boot import HarnessError
from ..core import hyp_run, direct_run
from . import c07, c08

ID = 'C09'
RULE = ('(a) generated (query, molecule) pairs: query atoms/bonds from the C08 primitive strategies (text and API), subgraph '
        'queries with drawn flags and the SMARTS lists of C07 incl. ring closures on cage-like targets; both filter settings and a '
        'drawn scope; (b) bit-layout sweep: single-atom queries against single-atom molecules for every element 1-118 x tabulated '
        'isotopes + unspecified x charge -4..+4 x radical with exact and one-attribute-off (near-miss) queries; neighbour/heteroatom '
        'counts 0-14 on star scaffolds, hydrogens 0-4, hybridisation 1-4, ring sizes 3-66 and 70 on carbocycles. oracle: '
        'set(get_mapping(_cython=True)) == set(get_mapping(_cython=False)). non-trivial = reference set non-empty or the pair is a '
        'near-miss; distinct by (query, molecule)'
        '; also: in-place remap / add_atom / add_bond on a target that was already searched; Cl-X pair sweep.')
ASSUMPTIONS = ['compiled matcher = _isomorphism.pyx run by vf/pyxlite.py with C integer semantics and bounds-checked pointers; '
               'compiler-level effects are out of reach',
               'documented exclusions are counted and skipped: Lv/Ts/Og treated as equal in compiled mode, rings > 65 atoms ring-free']


def shards(tier, seed):
    n = 160 if tier == 'quick' else 3000
    out = [dict(kind='pairs', shard=i, n=n) for i in range(10)]
    step = 8 if tier == 'quick' else 4
    out += [dict(kind='sweep', elements=list(range(z, min(z + step, 119))), full=tier == 'thorough') for z in range(1, 119, step)]
    out += [dict(kind='scaffold', part=i) for i in range(3)]
    return out


def run_shard(shard, tier, seed):
    import chython.algorithms._isomorphism as ci
    if not getattr(ci, '__pyxlite__', False):
        raise HarnessError('compiled matcher module is not the pyx-executor instance: comparison would be vacuous')
    if shard['kind'] == 'pairs':
        from .c06 import ring_assemblies
        specs = molgen.mol_specs(max_atoms=12, corpus_w=4, curated_w=4, graph_w=5, literal_w=1, sym_w=3)
        strat = st.fixed_dictionaries({
            'target': st.one_of(specs, specs, ring_assemblies()),
            'atoms': st.lists(c08.atom_query, min_size=4, max_size=4),
            'pairs': st.lists(st.tuples(c08.atom_query, c08.bond_query, c08.atom_query), min_size=3, max_size=3),
            'seed': st.integers(0, 2 ** 31)})
        return hyp_run(ID, strat, check_case, max_examples=shard['n'], seed=seed * 1000 + shard['shard'])
    if shard['kind'] == 'sweep':
        cases = []
        for z in shard['elements']:
            cases.append({'sweep': z, 'full': shard['full']})
        return direct_run(ID, cases, check_case)
    return direct_run(ID, [{'scaffold': shard['part']}], check_case)


def both(q, m, rec, label, **kw):
    """run both matcher paths; returns reference set or None after reporting a difference"""
    ok, a = rec.guard('compiled-path', lambda: list(q.get_mapping(m, _cython=True, **kw)))
    if not ok:
        return None
    ok, b = rec.guard('reference-path', lambda: list(q.get_mapping(m, _cython=False, **kw)))
    if not ok:
        return None
    sa, sb = {frozenset(x.items()) for x in a}, {frozenset(x.items()) for x in b}
    if kw.get('automorphism_filter', True):
        # with the filter the representative of each image set may legitimately differ: compare image sets
        ia, ib = {frozenset(x.values()) for x in a}, {frozenset(x.values()) for x in b}
        if ia != ib or len(a) != len(b):
            rec.fail('paths-differ', f'{label} (filtered): compiled {len(a)} mappings / {len(ia)} image sets, reference '
                                     f'{len(b)} / {len(ib)}; only compiled {[sorted(x) for x in list(ia - ib)[:2]]}, only reference '
                                     f'{[sorted(x) for x in list(ib - ia)[:2]]}', sig='filtered')
            return None
        return sb
    if sa != sb or len(a) != len(b):
        rec.fail('paths-differ', f'{label}: compiled returns {len(a)} mappings, reference {len(b)}; only compiled '
                                 f'{[dict(x) for x in list(sa - sb)[:2]]}; only reference {[dict(x) for x in list(sb - sa)[:2]]}',
                 sig='extra' if sa - sb else 'missing')
        return None
    return sb


def excluded_molecule(m):
    return any(a.atomic_number > 115 for _, a in m.atoms()) or any(len(r) > 65 for r in m.sssr)


def check_case(case, rec):
    if 'sweep' in case:
        return check_sweep(case, rec)
    if 'scaffold' in case:
        return check_scaffold(case, rec)
    from chython import smarts, QueryContainer
    from chython.containers.bonds import QueryBond
    rnd = _random.Random(case['seed'])
    try:
        t = molgen.build(case['target'])
    except molgen.Reject as e:
        rec.count(f'generator-reject:{e}')
        return
    if len(t) > 40 or excluded_molecule(t):
        rec.count('skip:large-or-documented-exclusion')
        return
    ts = str(t)
    queries = []
    for q in case['atoms']:
        if q['iso'] and (q['el'][0] in ('any', 'list', 'metal') or not c08.tabulated(q)):
            q = dict(q, iso=None)
        try:
            qc = QueryContainer('api')
            qc.add_atom(c08.atom_api(q), 1)
            queries.append((c08.atom_text(q), qc))
        except (ValueError, TypeError):
            pass
    for q1, b, q2 in case['pairs']:
        q1, q2 = [dict(q, iso=None) if q['iso'] and (q['el'][0] in ('any', 'list', 'metal') or not c08.tabulated(q)) else q
                  for q in (q1, q2)]
        bt = c08.bond_text(b)
        if bt is not None and not (q1['radical'] or q2['radical']):
            text = c08.atom_text(q1) + bt + c08.atom_text(q2)
            try:
                queries.append((text, smarts(text)))
            except ValueError:
                pass
        try:
            qc = QueryContainer('api')
            qc.add_atom(c08.atom_api(q1), 1)
            qc.add_atom(c08.atom_api(q2), 2)
            qc.add_bond(1, 2, QueryBond(tuple(sorted(c08.bond_sets(b))), b['ring']))
            queries.append((f'api:{c08.atom_text(q1)}{b}{c08.atom_text(q2)}', qc))
        except (ValueError, TypeError):
            pass
    queries.append(('subgraph', c07.as_query(t, c07.cut(t, rnd, rnd.randint(1, 8)), rnd)))
    queries.append((c07.SMARTS[case['seed'] % len(c07.SMARTS)], smarts(c07.SMARTS[case['seed'] % len(c07.SMARTS)])))
    queries.append((c07.RING_SMARTS[case['seed'] % len(c07.RING_SMARTS)], smarts(c07.RING_SMARTS[case['seed'] % len(c07.RING_SMARTS)])))
    scope = [n for n in t if rnd.random() < .6]
    for text, q in queries:
        label = f'query {text!r} on {ts!r}'
        rec.count('query-molecule pairs')
        ref = both(q, t, rec, label, automorphism_filter=False)
        if ref is None:
            return
        if ref:
            rec.nt((text, ts))
        if both(q, t, rec, label, automorphism_filter=True) is None:
            return
        if scope and both(q, t, rec, label + f' scope {scope}', automorphism_filter=False, searching_scope=scope) is None:
            return
        # encoder sizes
        buf = t._cython_compiled_structure
        if len(buf) != 4 + 44 * len(t) + 12 * 2 * t.bonds_count:
            rec.fail('encoder-size', f'{ts!r}: structure buffer {len(buf)} bytes, layout gives {4 + 44 * len(t) + 24 * t.bonds_count}')
            return
    # the same object after edits in place (renumbering, an added atom): both paths must follow the molecule as it is now
    t2 = t.copy()
    t2.kekule()
    for text, q in queries[-3:]:
        list(q.get_mapping(t2))  # fill whatever the default path caches
    nums = list(t2)
    perm = nums[:]
    rnd.shuffle(perm)
    tmp = {n: 20000 + i for i, n in enumerate(nums)}
    t2.remap(tmp)
    t2.remap({tmp[n]: k for n, k in zip(nums, perm)})
    for text, q in queries[-3:]:
        if both(q, t2, rec, f'query {text!r} on {ts!r} after remap() in place', automorphism_filter=False) is None:
            return
    try:
        host = next(n for n, a in t2.atoms() if a.atomic_number == 6 and a.implicit_hydrogens)
        k = t2.add_atom('C')
        t2.add_bond(host, k, 1)
        t2.thiele()
        if any(a.implicit_hydrogens is None for _, a in t2.atoms()):
            raise ValueError  # undefined hydrogen counts are outside the compared domain (the compiled side stores them as 0)
    except Exception:
        pass
    else:
        for text, q in queries[-3:]:
            if both(q, t2, rec, f'query {text!r} on {ts!r} after remap() and add_atom() in place', automorphism_filter=False) is None:
                return
    rec.count('in-place-edit sequences')
    rec.sample('pairs', dict(molecule=ts, queries=[x for x, _ in queries][:4]), cap=4)


def _mol1(cls, iso, charge, rad):
    from chython import MoleculeContainer
    m = MoleculeContainer()
    m.add_atom(cls(iso, charge=charge, is_radical=rad), 1)
    return m


def _q1(atom):
    from chython import QueryContainer
    q = QueryContainer('sweep')
    q.add_atom(atom, 1)
    return q


def check_sweep(case, rec):
    from chython.periodictable import Element, QueryElement
    z = case['sweep']
    cls = Element.from_atomic_number(z)
    qcls = QueryElement.from_atomic_number(z)
    isos = [None] + sorted(cls().isotopes_distribution)
    charges = range(-4, 5) if case['full'] else (-4, -1, 0, 1, 4)
    zn = z % 118 + 1
    if z > 115:
        rec.count('skip:Lv/Ts/Og treated as equal in compiled mode (documented)')
    for iso in isos:
        for ch in charges:
            for rad in (False, True):
                m = _mol1(cls, iso, ch, rad)
                label = f'{cls.__name__} iso={iso} charge={ch} radical={rad}'
                exact = qcls(iso, charge=ch, is_radical=rad)
                rec.evaluations += 1
                ref = both(_q1(exact), m, rec, f'exact query on {label}', automorphism_filter=False)
                if ref is None:
                    return
                if not ref:
                    rec.fail('sweep-exact', f'{label}: the exact query does not match (both paths)')
                    return
                rec.nt((z, iso, ch, rad))
                near = [qcls(iso, charge=ch + 1 if ch < 4 else ch - 1, is_radical=rad), qcls(iso, charge=ch, is_radical=not rad),
                        qcls(None, charge=ch, is_radical=rad)]
                other = [i for i in isos if i is not None and i != iso]
                if other:
                    near.append(qcls(other[0], charge=ch, is_radical=rad))
                if z <= 115 and zn <= 115:
                    near.append(QueryElement.from_atomic_number(zn)(None, charge=ch, is_radical=rad))
                for k, nq in enumerate(near):
                    r = both(_q1(nq), m, rec, f'near-miss query {k} ({nq!r} charge={nq.charge} radical={nq.is_radical}) on {label}',
                             automorphism_filter=False)
                    if r is None:
                        return
    if z > 115:
        return
    # generic atoms and element lists (the element bit sits in word 1 up to Ba and in word 2 above it)
    from chython.periodictable import AnyElement, AnyMetal, ListElement
    m = _mol1(cls, None, 0, False)
    sym = cls.__name__
    partners = [Element.from_atomic_number(k).__name__ for k in ((z + 1 - 1) % 115 + 1, (z + 30 - 1) % 115 + 1, 6, 78, 79, 92, 56, 57)]
    partners = [p for p in dict.fromkeys(partners) if p != sym]
    generic = [('A', AnyElement()), ('M', AnyMetal())] + [(f'{sym},{p}', ListElement([sym, p])) for p in partners] + \
              [(f'{p},{sym}', ListElement([p, sym])) for p in partners[:3]] + \
              [(f'{partners[0]},{partners[-1]},{sym}', ListElement([partners[0], partners[-1], sym])),
               (f'{partners[2]},{partners[3]}', ListElement([partners[2], partners[3]]))]
    for text, qa in generic:
        rec.evaluations += 1
        if both(_q1(qa), m, rec, f'[{text}] on [{sym}]', automorphism_filter=False) is None:
            return
        rec.nt((z, 'generic', text))
    # two-atom queries Cl-X and X-Cl (the element as root and as second query atom) against Cl-Y for Y = X and Y = other elements:
    # a non-root query atom goes through a different test of the compiled matcher
    from chython import MoleculeContainer as _MC, QueryContainer as _QC
    others = [sym] + [Element.from_atomic_number(k).__name__ for k in ((z + 1 - 1) % 115 + 1, (z + 12 - 1) % 115 + 1, 78, 79, 57, 92, 6, 50)]
    for ysym in dict.fromkeys(others):
        mol2 = _MC()
        mol2.add_atom('Cl', 1)
        mol2.add_atom(Element.from_symbol(ysym)(), 2)
        mol2.add_bond(1, 2, 1)
        for order in ((1, 2), (2, 1)):
            q2 = _QC('pair')
            for n in order:
                q2.add_atom(QueryElement.from_symbol('Cl')() if n == 1 else qcls(), n)
            q2.add_bond(1, 2, 1)
            rec.evaluations += 1
            ref = both(q2, mol2, rec, f'Cl-[{sym}] query (atoms added in order {order}) on Cl[{ysym}]', automorphism_filter=False)
            if ref is None:
                return
            if bool(ref) != (ysym == sym):
                rec.fail('sweep-pair', f'Cl-[{sym}] query on Cl[{ysym}]: {"matched" if ref else "not matched"} by both paths')
                return
            rec.nt((z, 'pair', ysym, order))
    # ring closure onto / next to the element: five-membered ring X-C-C-C-C, query numbered from X and from the opposite carbon
    from chython import MoleculeContainer, QueryContainer
    ring = MoleculeContainer()
    ring.add_atom(cls(), 1)
    for i in range(2, 6):
        ring.add_atom('C', i)
    for i in range(1, 6):
        ring.add_bond(i, i % 5 + 1, 1)
    for start in (1, 3, 5):
        order = [(start - 1 + k) % 5 + 1 for k in range(5)]
        q = QueryContainer('ring')
        for n in order:
            q.add_atom(qcls() if n == 1 else QueryElement.from_symbol('C')(), n)
        for a, b in zip(order, order[1:]):
            q.add_bond(a, b, 1)
        q.add_bond(order[-1], order[0], 1)  # the ring-closure bond of the query
        rec.evaluations += 1
        ref = both(q, ring, rec, f'five-membered ring query numbered from atom {start} on [{sym}]1CCCC1', automorphism_filter=False)
        if ref is None:
            return
        if len(ref) != (10 if z == 6 else 2):
            rec.fail('sweep-ring', f'ring query on [{sym}]1CCCC1 (numbered from {start}): {len(ref)} mappings by both paths, '
                                   f'{10 if z == 6 else 2} expected')
            return
        rec.nt((z, 'ring', start))
    rec.sample('sweep', dict(element=cls.__name__, isotopes=isos), cap=3)


def check_scaffold(case, rec):
    from chython import MoleculeContainer, QueryContainer
    from chython.periodictable import QueryElement, AnyElement
    part = case['scaffold']
    if part == 0:
        # neighbours / heteroatoms 0-14 on star scaffolds around a metal centre
        for k in range(0, 15):
            for hetero in (True, False):
                m = MoleculeContainer()
                c = m.add_atom('Fe')
                for _ in range(k):
                    m.add_bond(c, m.add_atom('F' if hetero else 'C'), 1)
                for j in range(0, 15):
                    for what in ('neighbors', 'heteroatoms'):
                        q = QueryContainer('star')
                        q.add_atom(QueryElement.from_symbol('Fe')(**{what: j}), 1)
                        rec.evaluations += 1
                        ref = both(q, m, rec, f'Fe;{what}={j} on star with {k} {"F" if hetero else "C"}', automorphism_filter=False)
                        if ref is None:
                            return
                        want = (j == k) if what == 'neighbors' else (j == (k if hetero else 0))
                        if bool(ref) != want:
                            rec.fail('scaffold', f'Fe;{what}={j} on star with {k} {"F" if hetero else "C"} neighbours: matched={bool(ref)}')
                            return
                        rec.nt(('star', k, hetero, j, what))
    elif part == 1:
        # hydrogens 0-4 and hybridisation 1-4
        from chython import smiles
        mols = {'C': (4, 1), '[CH3]': (3, 1), 'C=C': (2, 2), 'C#C': (1, 3), 'C=C=C': (0, 3), 'c1ccccc1': (1, 4), 'CC': (3, 1),
                'C(C)(C)(C)C': (0, 1), 'CC(C)C': (1, 1), 'CCC': (2, 1)}
        for s, _ in mols.items():
            m = smiles(s)
            for h in range(0, 5):
                for z in range(1, 5):
                    q = QueryContainer('hz')
                    q.add_atom(QueryElement.from_symbol('C')(implicit_hydrogens=h, hybridization=z, is_radical=s == '[CH3]'), 1)
                    rec.evaluations += 1
                    ref = both(q, m, rec, f'[C;h{h};z{z}] on {s}', automorphism_filter=False)
                    if ref is None:
                        return
                    want = any(a.implicit_hydrogens == h and a.hybridization == z for _, a in m.atoms())
                    if bool(ref) != want:
                        rec.fail('scaffold', f'[C;h{h};z{z}] on {s}: matched={bool(ref)}, expected {want}')
                        return
                    rec.nt(('hz', s, h, z))
    else:
        # ring sizes 3..66 and 70 on carbocycles
        for n in list(range(3, 67)) + [70]:
            m = MoleculeContainer()
            for i in range(1, n + 1):
                m.add_atom('C', i, _skip_calculation=True)
            for i in range(1, n + 1):
                m.add_bond(i, i % n + 1, 1, _skip_calculation=True)
            m.fix_structure()
            if n > 65:
                rec.count('skip:rings > 65 treated as ring-free in compiled mode (documented)')
                continue
            for r in (n, n - 1 if n > 3 else n + 1, 0):
                q = QueryContainer('ring')
                q.add_atom(AnyElement(ring_sizes=r), 1)
                rec.evaluations += 1
                ref = both(q, m, rec, f'[A;r{r}] on C{n} ring', automorphism_filter=False)
                if ref is None:
                    return
                if bool(ref) != (r == n):
                    rec.fail('scaffold', f'[A;r{r}] on a {n}-membered ring: matched={bool(ref)}')
                    return
                rec.nt(('ring', n, r))

"""
C19 worker: run as a fresh interpreter with a given PYTHONHASHSEED; reads specs (json) and prints one json record per item.
usage: python -m vf.checks.c19_worker <specs.json> <out.jsonl>
"""
import hashlib
import json
import sys

SMARTS = ['C', 'N', 'O', 'CC', 'C=O', 'c:c', '[N;D1]', '[O;D1]', 'C(=O)O', 'c1ccccc1', '[C;r5,r6]', 'C-,=N']


def dg(x):
    return hashlib.sha1(repr(x).encode()).hexdigest()[:12]


def values(m, queries, order):
    out = {}
    for k in order:
        try:
            if k == 'str':
                v = str(m)
            elif k == 'atoms_order':
                v = sorted(m.atoms_order.items())
            elif k == 'smiles_atoms_order':
                v = tuple(m.smiles_atoms_order)
            elif k == 'sssr':
                v = tuple(m.sssr)
            elif k == 'linear':
                v = sorted(m.linear_hash_set(1, 4))
            elif k == 'morgan':
                v = sorted(m.morgan_hash_set(1, 3))
            elif k == 'linear_bits':
                v = sorted(m.linear_bit_set(1, 4, 1024, 2, 4))
            elif k == 'matches':
                v = [[tuple(sorted(mp.items())) for mp in q.get_mapping(m)] for q in queries]
            elif k == 'canonicalize':
                c = m.copy()
                c.canonicalize()
                v = (str(c), [(n, a.charge, a.implicit_hydrogens) for n, a in c.atoms()])
            elif k == 'pack':
                v = m.pack(compressed=False).hex()
            elif k == 'components':
                v = [sorted(c) for c in m.connected_components]
            elif k == 'format_m':
                v = format(m, 'm')
        except Exception as e:  # a deterministic exception is a deterministic result
            v = ('EXC', type(e).__name__)
        out[k] = v
    return out


MUTATORS = ['canonicalize', 'standardize_charges', 'neutralize']


def mutated(spec, op, warm):
    """result of a normalisation called on the object itself, with cold caches or after reading derived values"""
    from vf import molgen
    m = molgen.build(spec)
    try:
        if warm:
            str(m), hash(m), m.atoms_order, m.sssr, m.smiles_atoms_order
        r = getattr(m, op)()
        return bool(r) if not isinstance(r, (list, tuple)) else len(r), str(m), [(n, a.charge, a.implicit_hydrogens) for n, a in m.atoms()]
    except Exception as e:
        return 'EXC', type(e).__name__


def after_abort(spec):
    """the molecule's values after a transaction that changed it, looked at the changed state and was rejected"""
    from vf import molgen
    a = molgen.build(spec)
    try:
        ak = a.copy()
        ak.kekule()
        n = next(iter(ak))
        bl = [(x, y) for x, y, b in ak.bonds()]
        try:
            with ak:
                ak.atom(n).charge = 1 if ak.atom(n).charge != 1 else 0
                if bl:
                    ak.delete_bond(*bl[len(bl) // 2])
                str(ak), ak.atoms_order, ak.connected_components_count, ak.sssr
                raise RuntimeError('reject')
        except RuntimeError:
            pass
        ref = a.copy()
        ref.kekule()
        return (str(ak), sorted(ak.atoms_order.items()), tuple(ak.smiles_atoms_order), sorted(map(sorted, ak.connected_components)),
                [str(x) for x in ak.split()]) == \
               (str(ref), sorted(ref.atoms_order.items()), tuple(ref.smiles_atoms_order), sorted(map(sorted, ref.connected_components)),
                [str(x) for x in ref.split()])
    except Exception as e:
        return 'EXC', type(e).__name__


def after_scoped_search(spec):
    """read-only searches with options (scope, multi-component patterns, both filter settings) must leave the molecule as it was"""
    from vf import molgen
    from chython import smarts
    a, ref = molgen.build(spec), molgen.build(spec)
    try:
        nums = list(a)
        scope = nums[: max(1, len(nums) // 2)]
        for q in (smarts('[A].[A]'), smarts('[A][A].[A]'), smarts('[A]')):
            list(q.get_mapping(a, searching_scope=scope))
            list(q.get_mapping(a, searching_scope=scope, automorphism_filter=False))
        sub = a.substructure(scope)
        list(sub.get_mapping(a, searching_scope=scope))
        q2 = smarts('[A][A]')
        def vals(x):
            return (str(x), sorted(map(sorted, x.connected_components)), [str(y) for y in x.split()],
                    sorted(tuple(sorted(mp.items())) for mp in q2.get_mapping(x, automorphism_filter=False)), tuple(map(tuple, x.sssr)))
        return vals(a) == vals(ref)
    except Exception as e:
        return 'EXC', type(e).__name__


def in_reaction(spec, partner):
    """the molecule's own values after it served as a member of a reaction whose string / hash / CGR were computed first"""
    from vf import molgen
    from chython import ReactionContainer
    a, b = molgen.build(spec), molgen.build(partner)
    try:
        r = ReactionContainer([a], [b], [a.copy()])
        str(r), hash(r), format(r, 'm')
        try:
            str(~r)
        except Exception:
            pass
        return str(a), format(a, 'm'), sorted(a.atoms_order.items()), a == a.copy(), str(b)
    except Exception as e:
        return 'EXC', type(e).__name__


def alone(spec, partner):
    from vf import molgen
    a, b = molgen.build(spec), molgen.build(partner)
    try:
        return str(a), format(a, 'm'), sorted(a.atoms_order.items()), a == a.copy(), str(b)
    except Exception as e:
        return 'EXC', type(e).__name__


KEYS = ['str', 'atoms_order', 'smiles_atoms_order', 'sssr', 'linear', 'morgan', 'linear_bits', 'matches', 'canonicalize', 'pack',
        'components', 'format_m']


def main():
    sys.path.insert(0, sys.argv[3] if len(sys.argv) > 3 else '.')
    from vf.boot import boot
    boot()
    from vf import molgen
    from chython import smarts
    queries = [smarts(s) for s in SMARTS]
    specs = json.load(open(sys.argv[1]))
    with open(sys.argv[2], 'w') as out:
        for i, spec in enumerate(specs):
            try:
                a = molgen.build(spec)
                b = molgen.build(spec)
            except molgen.Reject:
                out.write(json.dumps({'i': i, 'reject': True}) + '\n')
                continue
            first = values(a, queries, KEYS)            # uncached
            cached = values(a, queries, KEYS)           # cached on the same object
            copied = values(a.copy(), queries, KEYS)    # copy of an object with warm caches
            # fresh object: stereo-independent values first, then the rest in the opposite order
            first_keys = ['atoms_order', 'sssr', 'components', 'linear', 'morgan']
            other = values(b, queries, first_keys + [k for k in KEYS[::-1] if k not in first_keys])
            bad = sorted({k for k in KEYS if not (first[k] == cached[k] == copied[k] == other[k])})
            partner = specs[i - 1] if i else specs[-1]
            try:
                molgen.build(partner)
                solo, member = alone(spec, partner), in_reaction(spec, partner)
                first['rxn:member'] = solo
                if solo != member:
                    bad.append('rxn:member')
                    cached['rxn:member'] = copied['rxn:member'] = other['rxn:member'] = member
            except molgen.Reject:
                first['rxn:member'] = None
            sc = after_scoped_search(spec)
            first['search:state'] = True if not isinstance(sc, tuple) else sc
            if sc is False:
                bad.append('search:state')
                cached['search:state'] = copied['search:state'] = other['search:state'] = False
            ab = after_abort(spec)
            first['txn:abort'] = True if not isinstance(ab, tuple) else ab
            if ab is False:
                bad.append('txn:abort')
                cached['txn:abort'] = copied['txn:abort'] = other['txn:abort'] = False
            for op in MUTATORS:
                cold, warm = mutated(spec, op, False), mutated(spec, op, True)
                first['op:' + op] = cold
                if cold != warm:
                    bad.append('op:' + op)
                    cached['op:' + op] = copied['op:' + op] = other['op:' + op] = warm
            out.write(json.dumps({'i': i, 's': first['str'] if isinstance(first['str'], str) else None,
                                  'digest': {k: dg(first[k]) for k in KEYS + ['op:' + o for o in MUTATORS] + ['rxn:member', 'txn:abort', 'search:state']}, 'inconsistent': bad,
                                  'detail': {k: [dg(first[k]), dg(cached[k]), dg(copied[k]), dg(other[k])] for k in bad},
                                  'ties': len(set(a.atoms_order.values())) < len(a), 'rings': a.rings_count}) + '\n')


if __name__ == '__main__':
    main()

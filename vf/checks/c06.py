"""
C06 - ring perception returns a minimum cycle basis that ring marks agree with.  DESIGN 2/C06.
"""
import itertools
import random as _random

from hypothesis import strategies as st

from .. import molgen
from ..core import hyp_run, direct_run
from ..oracles import mcb

ID = 'C06'
EXHAUSTIVE = {'quick': False, 'thorough': False}
RULE = ('exhaustive stratum: every labelled connected graph with degree <= 4 on n <= 6 atoms with <= 5 rings (quick), plus n = 7 '
        '(<= 5 rings) and n = 8 (<= 3 rings) in thorough, each given to the ring finder and, for a sample, built as a carbon '
        'skeleton molecule so that marks and caches are exercised; random stratum: corpus, curated polycycles, generated '
        'fused/spiro/bridged assemblies and macrocycles under random renumbering with coordinate bonds added. oracle: independent '
        'two-assembly molecules; a rejected transaction that looked at the rings of the edited state; the original after a copy was renumbered. bridge/block finder, cycle enumeration and GF(2) minimum cycle basis. non-trivial = cyclomatic number >= 2; '
        'distinct by labelled edge set / canonical string'
        '; also: the curated witness list is swept completely on every run.')
ASSUMPTIONS = ['reference minimum-cycle-basis sizes from exhaustive simple-cycle enumeration per biconnected block (vf/oracles/mcb.py)',
               'recorded heuristic gap (property text): ring blocks containing a pair of branch atoms joined by three internally '
               'disjoint paths that all have >= 3 bonds are outside the claimed domain for the minimality clause (counted)',
               'ring-size marks are compared two-sided only when the minimum cycle basis is unique']


def shards(tier, seed):
    out = [dict(kind='exh', n=n, part=0, parts=1) for n in (3, 4, 5)]
    out += [dict(kind='exh', n=6, part=i, parts=6) for i in range(6)]
    if tier == 'quick':
        # 5 % sample of the n = 7 graphs (the slice rotates with the seed); complete in the thorough tier
        out += [dict(kind='exh', n=7, part=(seed * 8 + i) % 160, parts=160) for i in range(8)]
    if tier == 'thorough':
        out += [dict(kind='exh', n=7, part=i, parts=64) for i in range(64)]
        out += [dict(kind='exh', n=8, part=i, parts=96, max_rings=3) for i in range(96)]
    out += [dict(kind='mol', shard=i, n=250 if tier == 'quick' else 4000) for i in range(6 if tier == 'quick' else 12)]
    out.append(dict(kind='witness', n=24 if tier == 'quick' else 200))
    out.append(dict(kind='curated'))
    return out


# molecules with two ring systems one of which is a dense cage (witnesses of known finding C06-dense-cage-mix) and controls
WITNESSES = ['C123C45C1C4(C2(C3)C5)C.C12C34C5(C1(C5)C3)C24', 'C123C45C1C4(C2(C3)C5)C12C34C5(C1(C5)C3)C24',
             'C123C45C1C4(C2(C3)C5)C12C3C4C1C5C2C3C45', 'C123C45C1C4(C2(C3)C5)C', 'C12C3C4C1C5C2C3C45C12C3C4C1C5C2C3C45',
             'C123C45C1C4(C2(C3)C5)C12CCC(CC1)C2']


def run_shard(shard, tier, seed):
    if shard['kind'] == 'exh':
        return direct_run(ID, graphs(shard), check_case)
    if shard['kind'] == 'curated':
        # the curated witnesses are swept completely on every run (drawn cases meet a given witness only now and then)
        return direct_run(ID, ({'mol': {'k': 'smi', 's': s}, 'seed': seed * 100003 + i} for i, s in enumerate(molgen.curated())), check_case)
    if shard['kind'] == 'witness':
        return direct_run(ID, ({'mol': {'k': 'smi', 's': w}, 'seed': seed * 100003 + i} for w in WITNESSES for i in range(shard['n'])),
                          check_case)
    strat = st.fixed_dictionaries({'mol': st.one_of(molgen.mol_specs(max_atoms=16, corpus_w=4, curated_w=4, graph_w=5, sym_w=2),
                                                    ring_assemblies(), ring_pairs()),
                                   'seed': st.integers(0, 2 ** 31)})
    return hyp_run(ID, strat, check_case, max_examples=shard['n'], seed=seed * 1000 + shard['shard'])


def graphs(shard):
    n = shard['n']
    max_rings = shard.get('max_rings', 5)
    pairs = list(itertools.combinations(range(1, n + 1), 2))
    idx = 0
    max_edges = n - 1 + max_rings
    for ne in range(n - 1, min(len(pairs), max_edges) + 1):
        for es in itertools.combinations(pairs, ne):
            idx += 1
            if idx % shard['parts'] != shard['part']:
                continue
            deg = [0] * (n + 1)
            ok = True
            for a, b in es:
                deg[a] += 1
                deg[b] += 1
                if deg[a] > 4 or deg[b] > 4:
                    ok = False
                    break
            if not ok or 0 in deg[1:]:
                continue
            yield {'graph': n, 'edges': [list(e) for e in es]}


@st.composite
def ring_assemblies(draw):
    """fused / spiro / bridged assemblies of 3-8 membered rings and macrocycles with controlled bridge lengths"""
    atoms = [['C', 0, None, False] for _ in range(draw(st.sampled_from([3, 4, 5, 6, 6, 7, 8, 12, 15])))]
    n0 = len(atoms)
    bonds = [[i, (i + 1) % n0, 1] for i in range(n0)]
    deg = {i: 2 for i in range(n0)}
    for _ in range(draw(st.integers(1, 4))):
        mode = draw(st.sampled_from(['fuse', 'spiro', 'bridge', 'bridge']))
        cand = [i for i in deg if deg[i] < 4]
        if len(cand) < 2:
            break
        a = cand[draw(st.integers(0, len(cand) - 1))]
        ln = draw(st.integers(0 if mode == 'bridge' else 1, 5))
        if mode == 'spiro':
            if deg[a] > 2:
                continue
            b = a
            ln = max(ln, 2)
        elif mode == 'fuse':
            nb = [j for i, j, _ in bonds if i == a] + [i for i, j, _ in bonds if j == a]
            nb = [x for x in nb if deg[x] < 4]
            if not nb:
                continue
            b = nb[draw(st.integers(0, len(nb) - 1))]
            ln = max(ln, 1)
        else:
            others = [x for x in cand if x != a and not any({i, j} == {a, x} for i, j, _ in bonds)]
            if not others:
                continue
            b = others[draw(st.integers(0, len(others) - 1))]
        prev = a
        for _k in range(ln):
            atoms.append(['C', 0, None, False])
            x = len(atoms) - 1
            deg[x] = 0
            bonds.append([prev, x, 1])
            deg[prev] += 1
            deg[x] += 1
            prev = x
        if prev == b or any({i, j} == {prev, b} for i, j, _ in bonds):
            continue
        bonds.append([prev, b, 1])
        deg[prev] += 1
        deg[b] += 1
    return {'k': 'graph', 'atoms': atoms, 'bonds': bonds, 'stereo': []}


# ---------------------------------------------------------------------------------------------------

def theta_gap(adj):
    """a ring block contains two atoms joined by three internally disjoint paths with >= 3 bonds each (the recorded gap).
    decided on the homeomorphic reduction of every block: branch atoms (degree >= 3) joined by chains"""
    blocks, _ = mcb.blocks_and_bridges(adj)
    for block in blocks:
        b = mcb._block_adj(block)
        if len(block) - len(b) + 1 < 2:
            continue
        branch = [v for v in b if len(b[v]) >= 3]
        # chains between branch atoms
        chains = {}
        for s in branch:
            for first in b[s]:
                path = [s, first]
                while len(b[path[-1]]) == 2 and path[-1] != s:
                    nxt = [x for x in b[path[-1]] if x != path[-2]]
                    path.append(nxt[0])
                e = path[-1]
                if e != s and e in branch:
                    chains.setdefault(frozenset((s, e)), set()).add(tuple(path) if path[0] < path[-1] else tuple(path[::-1]))
        for pair, ps in chains.items():
            long_paths = [p for p in ps if len(p) - 1 >= 3]
            if len(long_paths) >= 3:
                return True
        # general case (paths through other branch atoms): three disjoint paths >= 3 bonds between two branch atoms
        if len(branch) > 2:
            for s, e in itertools.combinations(branch, 2):
                if _three_long_disjoint_paths(b, s, e):
                    return True
    return False


def _three_long_disjoint_paths(b, s, e, limit=20000):
    paths = []
    stack = [(s, (s,))]
    steps = 0
    while stack:
        v, p = stack.pop()
        steps += 1
        if steps > limit:
            return True  # conservative: treat as in the gap
        for w in b[v]:
            if w == e:
                if len(p) >= 3:
                    paths.append(frozenset(p[1:]))
            elif w not in p and len(p) < 12:
                stack.append((w, p + (w,)))
    for x, y, z in itertools.combinations(paths, 3):
        if not (x & y or x & z or y & z):
            return True
    return False


def dense_cage_mix(adj):
    """>= 2 ring blocks, one of them a dense cage (cyclomatic number >= atoms - 2 and >= 4): routes to the known finding on the
    global ring-count cut-off of the ring filter"""
    blocks, _ = mcb.blocks_and_bridges(adj)
    if len(blocks) < 2:
        return False
    for block in blocks:
        n = len(mcb._block_adj(block))
        k = len(block) - n + 1
        if k >= 4 and k >= n - 2:
            return True
    return False


@st.composite
def ring_pairs(draw):
    """two independent assemblies in one molecule, as separate components or joined by a bond or a two-atom linker
    (the ring filter works on the whole molecule with one global ring count)"""
    a, b = draw(ring_assemblies()), draw(ring_assemblies())
    off = len(a['atoms'])
    atoms = a['atoms'] + b['atoms']
    bonds = a['bonds'] + [[i + off, j + off, o] for i, j, o in b['bonds']]
    how = draw(st.sampled_from(['dot', 'bond', 'linker']))
    if how != 'dot':
        deg = {}
        for i, j, _ in bonds:
            deg[i] = deg.get(i, 0) + 1
            deg[j] = deg.get(j, 0) + 1
        ca = [i for i in range(off) if deg.get(i, 0) < 4]
        cb = [i for i in range(off, len(atoms)) if deg.get(i, 0) < 4]
        if ca and cb:
            x, y = ca[draw(st.integers(0, len(ca) - 1))], cb[draw(st.integers(0, len(cb) - 1))]
            if how == 'linker':
                atoms = atoms + [['C', 0, None, False]]
                bonds = bonds + [[x, len(atoms) - 1, 1], [len(atoms) - 1, y, 1]]
            else:
                bonds = bonds + [[x, y, 1]]
    return {'k': 'graph', 'atoms': atoms, 'bonds': bonds, 'stereo': []}


def check_rings(adj, rings, rec, label, in_gap):
    k = mcb.cyclomatic(adj)
    if len(rings) != k:
        rec.fail('ring-count', f'{label}: {len(rings)} rings reported, bonds - atoms + components = {k}')
        return None
    edges = sorted({frozenset((u, v)) for u in adj for v in adj[u]}, key=sorted)
    eidx = {e: i for i, e in enumerate(edges)}
    g = mcb._GF2()
    for r in rings:
        if len(set(r)) != len(r) or len(r) < 3:
            rec.fail('simple-cycle', f'{label}: ring {r} repeats an atom')
            return None
        for i in range(len(r)):
            a, b = r[i], r[(i + 1) % len(r)]
            if b not in adj.get(a, ()):
                rec.fail('simple-cycle', f'{label}: ring {r} uses a non-existent bond {a}-{b}')
                return None
        if not g.add(mcb._edge_vec(tuple(r), eidx)):
            rec.fail('independent', f'{label}: ring {r} is a GF(2) combination of the other reported rings',
                     sig='dense-cage-with-second-ring-system' if dense_cage_mix(adj) else '')
            return None
    try:
        ref = mcb.analyse(adj)
    except OverflowError:
        rec.count('skip:cycle-enumeration-budget')
        return None
    got = sorted(map(len, rings))
    if got != ref['sizes']:
        if in_gap:
            rec.count('excluded:theta-gap-nonminimal')
        else:
            rec.fail('minimum', f'{label}: ring sizes {got}, minimum cycle basis {ref["sizes"]}')
            return None
    return ref


def check_case(case, rec):
    if 'graph' in case:
        return check_graph(case, rec)
    return check_molecule(case, rec)


def check_graph(case, rec):
    from chython.algorithms.rings import _sssr, _connected_components
    n = case['graph']
    adj = {i: set() for i in range(1, n + 1)}
    for a, b in case['edges']:
        adj[a].add(b)
        adj[b].add(a)
    if len(mcb.components(adj)) != 1:
        rec.evaluations -= 1
        return
    k = len(case['edges']) - n + 1
    rec.count(f'graphs:n={n},rings={k}')
    comps = _connected_components({a: set(b) for a, b in adj.items()})
    if sorted(map(sorted, comps)) != sorted(map(sorted, mcb.components(adj))):
        rec.fail('components', f'{case}: {comps}')
    if not k:
        return
    if k >= 2:
        rec.nt((n, tuple(map(tuple, case['edges']))))
    in_gap = k >= 2 and theta_gap(adj)
    if in_gap:
        rec.count('in-theta-gap')
    ok, rings = rec.guard('sssr', _sssr, {a: set(b) for a, b in adj.items()}, k)
    if not ok:
        return
    ref = check_rings(adj, rings, rec, f'graph {case["edges"]}', in_gap)
    if ref is None:
        return
    # build as molecule for a sample: marks and cached views
    if (len(case['edges']) * 7 + sum(a * b for a, b in case['edges'])) % 5 == 0:
        from chython import MoleculeContainer
        m = MoleculeContainer()
        for i in range(1, n + 1):
            m.add_atom('C', i)
        for a, b in case['edges']:
            m.add_bond(a, b, 1)
        check_marks(m, rec, f'graph {case["edges"]}', ref, in_gap)
    if k >= 3 and (sum(a + b for a, b in case['edges']) % 211) == 0:
        rec.sample(f'graph-n{n}', case, cap=3)


def check_marks(m, rec, label, ref, in_gap):
    sssr = m.sssr
    if m.rings_count != ref['k'] or len(sssr) != ref['k']:
        rec.fail('marks', f'{label}: rings_count {m.rings_count}, sssr {len(sssr)}, expected {ref["k"]}', sig='count')
        return
    for n, a in m.atoms():
        if a.in_ring != (n in ref['ring_atoms']):
            rec.fail('marks', f'{label}: atom {n} in_ring={a.in_ring}, on a cycle: {n in ref["ring_atoms"]}', sig='atom-in-ring')
            return
        own = {len(r) for r in sssr if n in r}
        if a.ring_sizes != own:
            rec.fail('marks', f'{label}: atom {n} ring_sizes={a.ring_sizes}, sizes of reported rings through it {own}',
                     sig='ring-sizes')
            return
        if ref['unique'] and not in_gap:
            want = {len(r) for r in ref['relevant'] if n in r}
            if a.ring_sizes != want:
                rec.fail('marks', f'{label}: atom {n} ring_sizes={a.ring_sizes}, unique minimum basis gives {want}',
                         sig='ring-sizes-ref')
                return
    for a, b, bond in m.bonds():
        if bond.order == 8:
            continue
        want = frozenset((a, b)) in ref['ring_bonds']
        if bond.in_ring != want:
            # a bond between two ring atoms of different rings is a bridge: in_ring must be False
            rec.fail('marks', f'{label}: bond {a}-{b} in_ring={bond.in_ring}, lies on a cycle: {want}', sig='bond-in-ring')
            return
    comps = sorted(map(sorted, m.connected_components))
    want = sorted(map(sorted, mcb.components({n: set(nb) for n, nb in m._bonds.items()})))
    if comps != want or m.connected_components_count != len(want):
        rec.fail('marks', f'{label}: connected components {comps} != {want}', sig='components')
    for r in m.aromatic_rings:
        if r not in sssr:
            rec.fail('marks', f'{label}: aromatic ring {r} not among the reported rings', sig='aromatic')


def check_molecule(case, rec):
    from chython import MoleculeContainer
    try:
        m0 = molgen.build(case['mol'])
    except molgen.Reject as e:
        rec.count(f'generator-reject:{e}')
        return
    rnd = _random.Random(case['seed'])
    # renumbered skeleton copy incl. coordinate bonds at random (must be ignored by ring perception)
    m, mp = molgen.remap_copy(m0, case['seed'])
    nums = list(m)
    extra = 0
    metals = [n for n, a in m.atoms() if not a.is_forming_single_bonds] if hasattr(m.atom(nums[0]), 'is_forming_single_bonds') else []
    for _ in range(rnd.randrange(3)):
        a, b = rnd.sample(nums, 2) if len(nums) > 1 else (None, None)
        if a is not None and not m.has_bond(a, b):
            m.add_bond(a, b, 8)
            extra += 1
    adj = mcb.mol_adj(m)
    k = mcb.cyclomatic(adj)
    rec.count(f'molecules:rings={min(k, 6)}')
    if k >= 2:
        rec.nt(str(m0))
    in_gap = k >= 2 and theta_gap(adj)
    if in_gap:
        rec.count('in-theta-gap')
    ok, rings = rec.guard('sssr', lambda: m.sssr)
    if not ok:
        return
    ref = check_rings(adj, rings, rec, repr(str(m0)), in_gap)
    if ref is None:
        return
    check_marks(m, rec, repr(str(m0)), ref, in_gap)
    # a rejected edit leaves the ring set as it was: close a ring (or open one) inside a transaction, look at the rings of the
    # state about to be rejected, abort; ring list, counts, marks and components must be those of the untouched molecule
    t = m.copy()
    before = (sorted(map(sorted, t.sssr)), t.rings_count, sorted(map(sorted, t.connected_components)),
              {n: (a.in_ring, tuple(sorted(a.ring_sizes))) for n, a in t.atoms()})
    pairs = [(x, y) for x in nums for y in nums if x < y and not t.has_bond(x, y)]
    ring_bonds = [(x, y) for x, y, b in t.bonds() if b.in_ring and b.order != 8]
    try:
        with t:
            if pairs and case['seed'] % 2:
                x, y = pairs[case['seed'] % len(pairs)]
                t.add_bond(x, y, 1)
            elif ring_bonds:
                x, y = ring_bonds[case['seed'] % len(ring_bonds)]
                t.delete_bond(x, y)
            t.rings_count, t.sssr, t.connected_components_count  # validity check inside the block
            raise RuntimeError('reject')
    except RuntimeError:
        pass
    except Exception as e:
        rec.count(f'transaction-edit-refused:{type(e).__name__}')
    after = (sorted(map(sorted, t.sssr)), t.rings_count, sorted(map(sorted, t.connected_components)),
             {n: (a.in_ring, tuple(sorted(a.ring_sizes))) for n, a in t.atoms()})
    if after != before:
        what = [k for k, (p, q) in zip(('rings', 'rings_count', 'components', 'marks'), zip(before, after)) if p != q]
        rec.fail('rollback', f'{str(m0)!r}: after a rejected transaction that looked at the rings of the edited state, {what} differ from '
                             f'the untouched molecule', sig=what[0])
        return
    rec.count('rejected-transactions')
    # the renumbered copy must not have touched the original: its ring list is still a set of cycles of its own bonds
    adj0 = mcb.mol_adj(m0)
    for r in m0.sssr:
        if any(r[(i + 1) % len(r)] not in adj0.get(r[i], ()) for i in range(len(r))):
            rec.fail('simple-cycle', f'{str(m0)!r}: after a copy was renumbered the original reports ring {r}, which uses a non-existent bond',
                     sig='source-after-remap')
            return
    # numbering independence of the size multiset against the original numbering
    if sorted(map(len, m0.sssr)) != sorted(map(len, rings)) and not in_gap:
        rec.fail('renumbering', f'{str(m0)!r}: ring sizes {sorted(map(len, m0.sssr))} vs {sorted(map(len, rings))} after renumbering')
    if k >= 3:
        rec.sample('molecule', str(m0), cap=6)

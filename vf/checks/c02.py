"""
C02 - SMILES write -> read is lossless; canonical strings never collide.  DESIGN 2/C02.
"""
import itertools
import random as _random

from hypothesis import strategies as st

from .. import molgen
from ..core import hyp_run, direct_run, digest as core_digest
from ..oracles import iso, wl

ID = 'C02'
RULE = ('round trip: molecule spec x format spec drawn from subsets of {a, A, m, h, r} (and canonical) x random-writer seed; '
        'written order taken from __format__(_return_order=True); read-back normalised (kekule, thiele) and compared '
        'atom-wise under the written order incl. stereo by translated signs. injectivity: (1) exhaustive labelled graphs '
        '<= 5 atoms (6 thorough) over C/N/O, charges, bond orders 1-3: canonical string -> brute-force isomorphism class '
        'must be a function; (2) all 2^k label assignments (k <= 5) of sampled molecules: string -> stereo signature under '
        'also: str() read after smiles_atoms_order must equal str() of a fresh object. the constitution automorphism group must be a function. non-trivial = text has ring closure, branch, bracket atom '
        'or stereo mark; distinct by written text / canonical key'
        '; also: ladder stratum: >= 10 ring bonds open at once (two-digit closure numbers after bare atoms).'
        '; also: the curated witness list is swept completely on every run.')
ASSUMPTIONS = ['atom-wise comparison uses the known written order, no canonicaliser',
               'stereo signs are read through _translate_*_sign on both sides (parity-consistency checked in C12)',
               'automorphism group of the constitution computed by brute force (vf/oracles/iso.py), molecules <= 20 atoms',
               'conjugated partially-labelled polyenes are not generated (SMILES cannot express them)']

FLAGS = ['a', 'A', 'm', 'h', 'r']


def case_strategy(tier):
    return st.fixed_dictionaries({
        'mol': molgen.mol_specs(max_atoms=16),
        'fmt': st.lists(st.sets(st.sampled_from(FLAGS)).map(lambda s: ''.join(sorted(s))), min_size=3, max_size=3),
        'seed': st.integers(0, 2 ** 31),
    })


def shards(tier, seed):
    per = 500 if tier == 'quick' else 6000
    out = [dict(kind='rt', shard=i, n=per) for i in range(10)]
    out += [dict(kind='stereo', shard=i, n=60 if tier == 'quick' else 700) for i in range(3)]
    nmax = 5 if tier == 'quick' else 6
    parts = 6 if tier == 'quick' else 32
    out += [dict(kind='small', part=i, parts=parts, nmax=nmax) for i in range(parts)]
    out += [dict(kind='ladder', part=i, n=12 if tier == 'quick' else 150) for i in range(4)]
    out += [dict(kind='curated', part=i) for i in range(2)]
    return out


def ladder_spec(k, hub=None):
    """saturated ladder with k rungs (two chains joined rung by rung): written in random order such a molecule keeps ten and more
    ring closures open at once, i.e. the two-digit closure numbers %10, %11 ... occur after every kind of atom token"""
    atoms = [['C', 0, None, False] for _ in range(2 * k)]
    bonds = [[i, i + 1, 1] for i in range(k - 1)] + [[k + i, k + i + 1, 1] for i in range(k - 1)] + [[i, k + i, 1] for i in range(k)]
    if hub:
        for i in range(0, 2 * k, 5):
            atoms[i][0] = hub
    return {'k': 'graph', 'atoms': atoms, 'bonds': bonds, 'stereo': []}


def run_shard(shard, tier, seed):
    if shard['kind'] == 'rt':
        return hyp_run(ID, case_strategy(tier), check_case, max_examples=shard['n'], seed=seed * 1000 + shard['shard'])
    if shard['kind'] == 'stereo':
        strat = st.fixed_dictionaries({'stereo_of': molgen.mol_specs(max_atoms=12, corpus_w=3, curated_w=3, graph_w=3,
                                                                     literal_w=1, sym_w=6)})
        return hyp_run(ID, strat, check_case, max_examples=shard['n'], seed=seed * 1000 + 100 + shard['shard'])
    if shard['kind'] == 'curated':
        # the curated witnesses are swept completely on every run (drawn cases meet a given witness only now and then)
        fm = ['', 'a', 'A', 'h', 'm', 'r', 'ar', 'Ahr', 'hm']
        cur = molgen.curated()
        return direct_run(ID, [{'mol': {'k': 'smi', 's': s}, 'fmt': [fm[i % 9], fm[(i + 4) % 9], 'r'], 'seed': seed * 7919 + i}
                               for i, s in enumerate(cur) if i % 2 == shard['part']], check_case)
    if shard['kind'] == 'ladder':
        cases = []
        for i in range(shard['n']):
            sd = seed * 7919 + shard['part'] * 1000 + i
            cases.append({'mol': ladder_spec(11 + (sd % 4), [None, 'N', 'B', 'Si'][shard['part']]),
                          'fmt': ['r', 'ra', ['rh', 'rA', 'r', 'rm'][i % 4]], 'seed': sd})
        return direct_run(ID, cases, check_case)
    return small_graphs(shard)


def _mcb_unique(m):
    from ..oracles import mcb
    try:
        return mcb.analyse(mcb.mol_adj(m))['unique']
    except OverflowError:
        return False


def check_case(case, rec):
    if 'stereo_of' in case:
        return check_stereo_injective(case, rec)
    if 'small' in case:
        return check_small_pair(case, rec)
    from chython import smiles
    try:
        m = molgen.build(case['mol'])
    except molgen.Reject as e:
        rec.count(f'generator-reject:{e}')
        return
    snap = molgen.snapshot(m)
    # the canonical text must not depend on which accessor filled the cache first (the written order is cached together with it)
    try:
        m2 = molgen.build(case['mol'])
        m2.smiles_atoms_order
        if str(m2) != str(m) or format(m2, 'm') != format(m, 'm'):
            rec.fail('writer-call-order', f'str() gives {str(m2)!r} when smiles_atoms_order was read first, {str(m)!r} otherwise')
            return
    except molgen.Reject:
        pass
    for k, f in enumerate(case['fmt']):
        sd = case['seed'] + k
        _random.seed(sd)
        text = format(m, f)
        _random.seed(sd)
        text2, order = m.__format__(f, _return_order=True) if f else m.__format__('', _return_order=True)
        if not f:
            text = str(m)
        if not text.startswith(text2):
            rec.fail('writer-deterministic', f'{text!r} vs {text2!r} for the same random seed, format {f!r}')
            continue
        rec.count(f'format:{f or "canonical"}')
        if any(c in text for c in '()123456789[@/\\'):
            rec.nt(text)
        ok, x = rec.guard('read-back', smiles, text)
        if not ok:
            continue
        if len(x) != len(m):
            rec.fail('atoms-lost', f'{text!r}: {len(m)} atoms written, {len(x)} read', sig=f)
            continue
        if 'm' in f:
            mp = {n: n for n in order}
            if set(x) != set(order):
                rec.fail('mapping-numbers', f'{text!r}: numbers {sorted(x)} != {sorted(order)}', sig=f)
                continue
        else:
            mp = {n: i for i, n in enumerate(order, 1)}
        try:
            molgen.normalise(x)
        except Exception as e:
            rec.fail('read-back-normalise', f'{str(m)!r} --{f!r}--> {text!r}: read-back cannot be normalised: {type(e).__name__}: {e}',
                     sig='aromatic-P-ambiguity' if wl.aromatic_p_ambiguity(m) else
                     ('thiele-mcb-not-unique' if not _mcb_unique(m) else type(e).__name__))
            continue
        sx = molgen.snapshot(x)
        want = molgen.map_snapshot(snap, mp)
        if sx != want:
            diff = [(n, want[n], sx.get(n)) for n in want if want[n] != sx.get(n)][:3]
            sig = 'aromatic-P-ambiguity' if wl.aromatic_p_ambiguity(m) else ('A' if 'A' in f else ('h' if 'h' in f else ''))
            if sig in ('', 'h') and sum(b.order == 4 for *_, b in m.bonds()) != sum(b.order == 4 for *_, b in x.bonds()) and \
                    not _mcb_unique(m):
                sig = 'thiele-mcb-not-unique'
            rec.fail('atomwise', f'{str(m)!r} --{f!r}--> {text!r}: {diff}', sig=sig)
            continue
        d = molgen.compare_stereo(m, x, mp)
        if d:
            sig = d[0][0]
            if d[0][0].startswith('cis-trans') and wl.annulene_stereo(m):
                sig = 'annulene-stereo'
            elif d[0][0].startswith('cis-trans') and (wl.radialene_stereo(m) or wl.ring_diene_stereo(m)):
                sig = 'ring-conjugated-stereo'
            else:
                try:
                    col, adj = wl.constitution(m)
                    orb = wl.orbits(col, adj)
                    if wl.gap_a_ring(m, orb):
                        sig = 'pseudo-asymmetric-ring'
                    elif wl.gap_a(m, orb):
                        sig = 'pseudo-asymmetric-acyclic'
                except TimeoutError:
                    sig = 'pseudo-asymmetric-ring'  # symmetry oracle budget: treated like the documented heuristic domain
            rec.fail('stereo', f'{str(m)!r} --{f!r}--> {text!r} -> {str(x)!r}: {d[:3]}', sig=sig)
            continue
        rec.sample(f'format:{f or "canonical"}', text, cap=3)


# ---------------------------------------------------------------------------------------------------
# injectivity (2): stereoisomers

def check_stereo_injective(case, rec):
    from chython.exceptions import NotChiral, IsChiral
    try:
        base = molgen.build(case['stereo_of'])
    except molgen.Reject as e:
        rec.count(f'generator-reject:{e}')
        return
    if len(base) > 24:
        rec.count('skip:too-large')
        return
    base = base.copy()
    base.clean_stereo()
    th = sorted(base.chiral_tetrahedrons)
    ct = sorted(base.chiral_cis_trans)
    al = sorted(base.chiral_allenes)
    # conjugated double-bond groups cannot be partially labelled in SMILES: keep only isolated ones
    clusters = molgen._ct_clusters(base)
    ct = [x for x in ct if any(len(c) == 1 and (x in c or x[::-1] in c) for c in clusters)]
    centres = [('t', n) for n in th] + [('c', n) for n in ct] + [('a', n) for n in al]
    centres = centres[:5]
    k = len(centres)
    if k < 1:
        rec.count('skip:no-centres')
        return
    col, adj = wl.constitution(base)
    try:
        autos = iso.automorphisms(col, adj, limit=3000)
    except OverflowError:
        rec.count('skip:automorphism-budget')
        return
    seen = {}
    sigs = set()
    for bits in itertools.product((None, True, False), repeat=k) if k <= 3 else itertools.product((True, False), repeat=k):
        m = base.copy()
        ok = True
        for (kind, n), b in zip(centres, bits):
            if b is None:
                continue
            try:
                if kind == 't':
                    m.add_atom_stereo(n, m.stereogenic_tetrahedrons[n], b)
                elif kind == 'a':
                    env = m.stereogenic_allenes[n]
                    m.add_atom_stereo(n, (env[0], env[1]), b)
                else:
                    env = m.stereogenic_cis_trans[n]
                    m.add_cis_trans_stereo(n[0], n[1], env[0], env[1], b)
            except (NotChiral, IsChiral):
                ok = False  # label on a centre that stopped being stereogenic: not a distinct isomer
                break
        if not ok:
            rec.count('assignment-not-applicable')
            continue
        s = str(m)
        sig = iso.stereo_signature(m, autos)
        sigs.add(sig)
        rec.count('assignments')
        if s in seen and seen[s][0] != sig:
            rec.fail('stereo-collision', f'{s!r} is the canonical string of two different stereoisomers: '
                                         f'labels {seen[s][1]} and {bits} on centres {centres}', sig=centres[0][0])
        seen.setdefault(s, (sig, bits))
    if len(sigs) > 1:
        rec.nt(('stereo', str(base)))
        rec.sample('stereoisomer-sets', dict(molecule=str(base), centres=k, automorphisms=len(autos),
                                             stereoisomers=len(sigs), strings=len(seen)), cap=6)
    if len(seen) > len(sigs):
        rec.count('info:more-strings-than-isomers (C01 direction, not asserted here)')


# ---------------------------------------------------------------------------------------------------
# injectivity (1): exhaustive small graphs

CAP = {('C', 0): 4, ('N', 0): 3, ('O', 0): 2, ('N', 1): 4, ('N', -1): 2, ('O', 1): 3, ('O', -1): 1}
ATOM_TYPES = sorted(CAP)


def _connected_edge_sets(n):
    pairs = list(itertools.combinations(range(n), 2))
    for mask in range(1, 1 << len(pairs)):
        es = [p for i, p in enumerate(pairs) if mask >> i & 1]
        if len(es) < n - 1:
            continue
        deg = [0] * n
        for a, b in es:
            deg[a] += 1
            deg[b] += 1
        if min(deg) == 0 or max(deg) > 4:
            continue
        adj = {i: set() for i in range(n)}
        for a, b in es:
            adj[a].add(b)
            adj[b].add(a)
        seen, stack = {0}, [0]
        while stack:
            v = stack.pop()
            for w in adj[v]:
                if w not in seen:
                    seen.add(w)
                    stack.append(w)
        if len(seen) == n:
            yield es


def _order_vectors(n, es):
    """all bond-order assignments with every atom valence <= 4 (backtracking)"""
    out = []
    val = [0] * n
    cur = []

    def rec(i):
        if i == len(es):
            out.append((tuple(cur), tuple(val)))
            return
        a, b = es[i]
        for o in (1, 2, 3):
            if val[a] + o <= 4 and val[b] + o <= 4:
                val[a] += o
                val[b] += o
                cur.append(o)
                rec(i + 1)
                cur.pop()
                val[a] -= o
                val[b] -= o
    rec(0)
    return out


def small_graphs(shard):
    """enumerate decorated graphs; each shard takes the (shape, bond orders) skeletons with index = part (mod parts)"""
    cases = []
    idx = 0
    for n in range(1, shard['nmax'] + 1):
        shapes = {}
        for es in ([[]] if n == 1 else _connected_edge_sets(n)):
            key = iso.canon_key([0] * n, {e: 1 for e in es})
            shapes.setdefault(key, es)  # one labelled representative per unlabelled shape
        for es in shapes.values():
            for orders, val in _order_vectors(n, es):
                idx += 1
                if idx % shard['parts'] != shard['part']:
                    continue
                choices = [[t for t in ATOM_TYPES if CAP[t] >= v] for v in val]
                for types in itertools.product(*choices):
                    if sum(1 for t in types if t[1]) > 2:
                        continue
                    cases.append({'small': [list(t) for t in types],
                                  'edges': [[a, b, o] for (a, b), o in zip(es, orders)]})
    res = direct_run(ID, [{'small': 'batch', 'cases': cases}], check_small_batch)
    res['aux'] = _TABLE.copy()
    _TABLE.clear()
    return res


_TABLE = {}


def post(merged, tier):
    """collisions between strings produced in different shards"""
    table = {}
    for aux in merged['aux']:
        for s, (key, c) in aux.items():
            if s in table and table[s][0] != key:
                merged['violations'].append(dict(bucket='collision', clause='collision',
                                                 detail=f'{s!r} is the canonical string of two non-isomorphic graphs',
                                                 case={'small': c['small'], 'edges': c['edges'], 'other': table[s][1]}))
            table.setdefault(s, (key, c))
    merged['counts']['small:distinct-strings'] = len(table)
    merged['counts']['small:distinct-isomorphism-classes'] = len({k for k, _ in table.values()})


def _small_mol(types, edges, perm=None):
    from chython import MoleculeContainer
    from chython.periodictable import Element
    m = MoleculeContainer()
    n = len(types)
    perm = perm or list(range(n))
    nums = {}
    for i in perm:
        sym, ch = types[i]
        nums[i] = m.add_atom(Element.from_symbol(sym)(charge=ch))
    for a, b, o in edges:
        m.add_bond(nums[a], nums[b], o)
    return m


def _norm_key(m):
    """brute-force isomorphism class of the aromatised graph: Kekule resonance forms of one ring are one molecule, so ring bonds
    the library aromatised count as order 4 and aromatic atoms carry their hydrogen count (C05 is about that step itself)"""
    nums = list(m)
    idx = {n: i for i, n in enumerate(nums)}
    types = [(m.atom(n).atomic_symbol, m.atom(n).charge,
              m.atom(n).implicit_hydrogens if any(b.order == 4 for b in m._bonds[n].values()) else None) for n in nums]
    edges = {(min(idx[a], idx[b]), max(idx[a], idx[b])): bond.order for a, b, bond in m.bonds()}
    return iso.canon_key(types, edges)


def check_small_batch(batch, rec):
    table = {}
    rec.evaluations -= 1
    for c in batch['cases']:
        rec.evaluations += 1
        types, edges = c['small'], c['edges']
        m = _small_mol(types, edges)
        if m.check_valence() or any(a.implicit_hydrogens is None for _, a in m.atoms()):
            rec.count('skip:valence-invalid for chython')
            continue
        m.thiele()
        key = _norm_key(m)
        s = str(m)
        rec.count(f'small:{len(types)}-atoms')
        rec.nt(key)
        if s in table and table[s][0] != key:
            rec.current_case = {'small': types, 'edges': edges, 'other': table[s][1]}
            rec.fail('collision', f'{s!r} is the canonical string of two non-isomorphic graphs: {c} and {table[s][1]}')
        table.setdefault(s, (key, c))
        _TABLE.setdefault(s, (core_digest(key), c))
        if len(table) % 97 == 0:
            rec.sample('small-graphs', dict(graph=c, string=s), cap=5)


def check_small_pair(case, rec):
    """replay form of a collision: both graphs given explicitly"""
    a, b = case, case['other']
    ma, mb = _small_mol(a['small'], a['edges']), _small_mol(b['small'], b['edges'])
    ma.thiele()
    mb.thiele()
    ka, kb = _norm_key(ma), _norm_key(mb)
    if ka != kb and str(ma) == str(mb):
        rec.fail('collision', f'{str(ma)!r} for two non-isomorphic graphs')

"""
C10 - binary pack format: lossless round trip, stable published layout.  DESIGN 2/C10.
"""
import random as _random
import struct
import zipfile
import zlib
import os

from hypothesis import strategies as st

from .. import molgen
from ..boot import REPO
from ..core import hyp_run, direct_run
from ..oracles import packref

ID = 'C10'
RULE = ('generated molecules (corpus, curated, literals, constructive, symmetric; raw aromatic readings with unknown H; Kekule and '
        'thiele forms) renumbered to non-contiguous numbers <= 4095 with drawn coordinates (half-exact and arbitrary doubles), '
        'star scaffolds with 0-15 neighbours, element x isotope x charge x H sweeps; reactions with 0-3 molecules per role incl. '
        'empty roles; the 4200 published packs. oracles: unpack(pack(m)) field-by-field, pack bytes == reference encoder written '
        'from the layout specification, reference decoder == unpack, pack(unpack(b)) == b for published packs, pack_len, dispatch, '
        'format limits. non-trivial = atom number > 255 or bond count not divisible by 8 or stereo label or isotope; distinct by pack bytes'
        '; also: the curated witness list is swept completely on every run.')
ASSUMPTIONS = ['layout as written in the pack() docstring; the orientation of the atom pair in a cis/trans record and float16 '
               'rounding vs truncation are not fixed by it and either is accepted',
               'codec executed through the pyx transliterator; uninitialised C memory is modelled as zero',
               'published packs are compared on constitution with the csv rows (they predate C=N cis/trans support)']


def shards(tier, seed):
    n = 700 if tier == 'quick' else 8000
    out = [dict(kind='mol', shard=i, n=n) for i in range(8)]
    out += [dict(kind='rxn', shard=i, n=120 if tier == 'quick' else 2500) for i in range(2)]
    parts = 4 if tier == 'quick' else 16
    step = 10 if tier == 'quick' else 1
    out += [dict(kind='published', part=i, parts=parts, step=step) for i in range(parts)]
    out += [dict(kind='scaffold'), dict(kind='curated')]
    return out


def run_shard(shard, tier, seed):
    k = shard['kind']
    if k == 'mol':
        strat = st.fixed_dictionaries({'mol': molgen.mol_specs(max_atoms=16), 'seed': st.integers(0, 2 ** 31),
                                       'form': st.sampled_from(['raw', 'kekule', 'thiele', 'thiele'])})
        return hyp_run(ID, strat, check_case, max_examples=shard['n'], seed=seed * 1000 + shard['shard'])
    if k == 'curated':
        # the curated witnesses are swept completely on every run (drawn cases meet a given witness only now and then)
        forms = ['raw', 'kekule', 'thiele']
        return direct_run(ID, [{'mol': {'k': 'smi', 's': s}, 'seed': seed * 7919 + i, 'form': forms[(i + seed) % 3]}
                               for i, s in enumerate(molgen.curated())], check_case)
    if k == 'rxn':
        role = st.lists(molgen.mol_specs(max_atoms=8, corpus_w=3, curated_w=3, graph_w=4, sym_w=0), max_size=3)
        strat = st.fixed_dictionaries({'rxn': st.tuples(role, role, role), 'seed': st.integers(0, 2 ** 31)})
        return hyp_run(ID, strat, check_case, max_examples=shard['n'], seed=seed * 1000 + 50 + shard['shard'])
    if k == 'published':
        idx = [i for i in range(0, 4200, shard['step']) if (i // shard['step']) % shard['parts'] == shard['part']]
        return direct_run(ID, [{'published': i} for i in idx], check_case)
    return direct_run(ID, [{'scaffold': 'stars'}, {'scaffold': 'sweep'}, {'scaffold': 'limits'}], check_case)


def check_case(case, rec):
    if 'published' in case:
        return check_published(case, rec)
    if 'scaffold' in case:
        return check_scaffold(case, rec)
    if 'rxn' in case:
        return check_rxn(case, rec)
    return check_mol(case, rec)


# ---------------------------------------------------------------------------------------------------

def coords(m, rnd):
    for _, a in m.atoms():
        mode = rnd.random()
        if mode < .3:
            a.x, a.y = rnd.randint(-2048, 2048) / 2 ** rnd.randint(0, 10), rnd.randint(-1024, 1024) / 64.
        elif mode < .8:
            a.x, a.y = rnd.uniform(-30, 30), rnd.uniform(-30, 30)
        elif mode < .9:
            a.x, a.y = rnd.uniform(-65000, 65000), rnd.uniform(-1e-5, 1e-5)
        else:
            a.x, a.y = 0., rnd.choice([-0.0, 6.1e-5, 5.9e-8, 1.5, 65504.])


def fields(m):
    """everything the statement lists, read by plain accessors"""
    ct = {}
    for n, k, b in m.bonds():
        if b.stereo is not None:
            ct[frozenset((n, k))] = b.stereo
    return dict(order=list(m._atoms),
                atoms={n: (type(a).__name__, a.isotope, a.charge, a.is_radical, a.implicit_hydrogens, a.stereo)
                       for n, a in m.atoms()},
                nbrs={n: [(k, b.order) for k, b in nb.items()] for n, nb in m._bonds.items()}, ct=ct)


def describe(m):
    """plain description for the reference encoder"""
    atoms = []
    for n, a in m.atoms():
        atoms.append(dict(n=n, nbrs=list(m._bonds[n]), stereo=a.stereo, iso_offset=0 if a.isotope is None else a.isotope - a.mdl_isotope + 16,
                          z=a.atomic_number, x=a.x, y=a.y, h=a.implicit_hydrogens, ch=a.charge, rad=a.is_radical))
    orders = {(n, k): b.order for n, nb in m._bonds.items() for k, b in nb.items()}
    return atoms, orders


def check_pack(m, rec, label):
    """returns raw bytes or None"""
    from chython import MoleculeContainer, unpack as any_unpack
    ok, raw = rec.guard('pack', m.pack, compressed=False)
    if not ok:
        return None
    ok, comp = rec.guard('pack', m.pack)
    if not ok:
        return None
    if zlib.decompress(comp) != raw:
        rec.fail('compressed', f'{label}: compressed pack does not decompress to the raw pack')
        return None
    f0 = fields(m)
    for data, kw in ((raw, dict(compressed=False)), (comp, {})):
        ok, u = rec.guard('unpack', MoleculeContainer.unpack, data, **kw)
        if not ok:
            return None
        f1 = fields(u)
        if f1 != f0:
            diff = [k for k in f0 if f0[k] != f1[k]]
            detail = ''
            if 'atoms' in diff:
                detail = [(n, f0['atoms'][n], f1['atoms'].get(n)) for n in f0['atoms'] if f0['atoms'][n] != f1['atoms'].get(n)][:3]
            elif 'ct' in diff:
                detail = (dict(map(lambda kv: (tuple(kv[0]), kv[1]), f0['ct'].items())), dict(map(lambda kv: (tuple(kv[0]), kv[1]), f1['ct'].items())))
            rec.fail('round-trip', f'{label}: fields {diff} differ after unpack(pack()) {detail}', sig=diff[0])
            return None
        for n, a in m.atoms():
            b = u.atom(n)
            for v, w in ((a.x, b.x), (a.y, b.y)):
                if w not in {struct.unpack('>e', c)[0] for c in packref.f16_candidates(v)}:  # by value: -0.0 == 0.0
                    rec.fail('coordinates', f'{label}: atom {n} coordinate {v!r} unpacked as {w!r} (not a half-precision neighbour)')
                    return None
        ok, d = rec.guard('unpack-dispatch', any_unpack, data, **kw)
        if ok and (not isinstance(d, MoleculeContainer) or fields(d) != f0):
            rec.fail('dispatch', f'{label}: chython.unpack() did not return the molecule')
            return None
    if MoleculeContainer.pack_len(comp) != len(m) or MoleculeContainer.pack_len(raw, compressed=False) != len(m):
        rec.fail('pack-len', f'{label}: pack_len {MoleculeContainer.pack_len(comp)} != {len(m)}')
        return None
    # layout: reference decoder and encoder
    try:
        dec = packref.decode(raw)
    except Exception as e:
        rec.fail('layout-decode', f'{label}: reference decoder cannot read the pack: {type(e).__name__}: {e}')
        return None
    atoms, orders = describe(m)
    if dec['size'] != len(raw) or dec['order_padding']:
        rec.fail('layout', f'{label}: pack length {len(raw)} vs layout {dec["size"]}, padding bits {dec["order_padding"]}', sig='size')
        return None
    for a, d in zip(atoms, dec['atoms']):
        th = (2 + int(a['stereo'])) if a['stereo'] is not None and len(a['nbrs']) != 2 else 0
        al = (2 + int(a['stereo'])) if a['stereo'] is not None and len(a['nbrs']) == 2 else 0
        want = (a['n'], len(a['nbrs']), th, al, a['iso_offset'], a['z'], a['h'], a['ch'], a['rad'])
        got = (d['n'], d['nn'], d['th'], d['al'], d['iso'], d['z'], d['h'], d['ch'], d['rad'])
        if want != got or dec['adj'][a['n']] != a['nbrs']:
            rec.fail('layout', f'{label}: atom record decoded by the reference reader {got} {dec["adj"][a["n"]]} != {want} {a["nbrs"]}',
                     sig='atom-record')
            return None
        a['xb'], a['yb'] = d['xy_bytes'][:2], d['xy_bytes'][2:]
    if len(atoms) != len(dec['atoms']):
        rec.fail('layout', f'{label}: atom count', sig='count')
        return None
    if any(orders[k] != v for k, v in dec['bonds'].items()) or len(dec['bonds']) != len(orders) // 2:
        rec.fail('layout', f'{label}: bond orders decoded by the reference reader differ', sig='orders')
        return None
    want_ct = {(k, s) for k, s in f0['ct'].items()}
    # cis/trans records name the terminal atoms of the double-bond chain
    got_ct = set()
    for n, k, s in dec['ct']:
        if s not in (0, 1):
            rec.fail('layout', f'{label}: cis/trans sign byte {s}', sig='ct')
            return None
        centre = m._stereo_cis_trans_centers.get(n)
        if centre is None or m._stereo_cis_trans_counterpart.get(n) != k:
            rec.fail('layout', f'{label}: cis/trans record ({n}, {k}) does not name the ends of a double-bond chain', sig='ct')
            return None
        got_ct.add((frozenset(centre), bool(s)))
    if got_ct != want_ct:
        rec.fail('layout', f'{label}: cis/trans block {sorted(map(str, got_ct))} != labels {sorted(map(str, want_ct))}', sig='ct')
        return None
    ref = packref.encode(dict(atoms=atoms, orders=orders, ct=dec['ct']))
    if ref != raw:
        i = next(i for i, (x, y) in enumerate(zip(ref, raw)) if x != y) if len(ref) == len(raw) else -1
        rec.fail('layout-bytes', f'{label}: pack differs from the reference encoder at byte {i} (lengths {len(raw)}/{len(ref)})')
        return None
    # version 0 packs (older layout of the order block) decode to the same molecule
    ok, u0 = rec.guard('unpack-v0', MoleculeContainer.unpack, packref.encode_v0(dict(atoms=atoms, orders=orders, ct=dec['ct'])),
                       compressed=False)
    if ok and fields(u0) != f0:
        rec.fail('version-0', f'{label}: the same molecule in version-0 layout unpacks differently')
        return None
    return raw


def check_mol(case, rec):
    try:
        if case['form'] == 'raw':
            m = molgen.build_raw(case['mol'])
            if not len(m):
                return
            if case['mol']['k'] == 'graph':
                molgen.decorate_stereo(m, case['mol'].get('stereo', ()))
        elif case['form'] == 'kekule':
            m = molgen.build_kekule(case['mol'])
        else:
            m = molgen.build(case['mol'])
    except molgen.Reject as e:
        rec.count(f'generator-reject:{e}')
        return
    if any(len(nb) > 15 for nb in m._bonds.values()) or any((a.implicit_hydrogens or 0) > 6 for _, a in m.atoms()):
        rec.count('skip:outside format limits')
        return
    rnd = _random.Random(case['seed'])
    m, _ = molgen.remap_copy(m, case['seed'], max_number=4095)
    coords(m, rnd)
    label = repr(format(m, 'm'))
    rec.count(f'form:{case["form"]}')
    raw = check_pack(m, rec, label)
    if raw is None:
        return
    if max(m) > 255 or m.bonds_count % 8 or any(a.stereo is not None or a.isotope for _, a in m.atoms()) or \
            any(b.stereo is not None for *_, b in m.bonds()):
        rec.nt(raw)
    rec.sample(case['form'], dict(smiles=str(m), bytes=len(raw)), cap=4)


def check_rxn(case, rec):
    from chython import ReactionContainer, unpack as any_unpack
    roles = []
    for role in case['rxn']:
        ms = []
        for spec in role:
            try:
                m = molgen.build(spec)
            except molgen.Reject as e:
                rec.count(f'generator-reject:{e}')
                continue
            if any(len(nb) > 15 for nb in m._bonds.values()):
                continue
            ms.append(m)
        roles.append(ms)
    if not any(roles):
        rec.count('rxn:empty')
        return
    r = ReactionContainer(roles[0], roles[2], roles[1])
    label = repr(str(r))
    ok, comp = rec.guard('rxn-pack', r.pack)
    if not ok:
        return
    raw = zlib.decompress(comp)
    rec.nt(raw)
    rec.count(f'rxn:roles={len(roles[0])}-{len(roles[1])}-{len(roles[2])}')
    if raw[:4] != bytes((1, len(roles[0]), len(roles[1]), len(roles[2]))):
        rec.fail('rxn-layout', f'{label}: header {raw[:4].hex()}')
        return
    if raw[4:] != b''.join(m.pack(compressed=False) for ms in roles for m in ms):
        rec.fail('rxn-layout', f'{label}: body is not the concatenation of the molecule packs in role order')
        return
    for data, kw in ((comp, {}), (raw, dict(compressed=False))):
        ok, u = rec.guard('rxn-unpack', ReactionContainer.unpack, data, **kw)
        if not ok:
            return
        got = [list(u.reactants), list(u.reagents), list(u.products)]
        if [len(x) for x in got] != [len(x) for x in roles]:
            rec.fail('rxn-round-trip', f'{label}: role sizes {[len(x) for x in roles]} packed, {[len(x) for x in got]} unpacked',
                     sig='roles')
            return
        for gs, ws in zip(got, roles):
            for g, w in zip(gs, ws):
                if fields(g) != fields(w):
                    rec.fail('rxn-round-trip', f'{label}: molecule {str(w)!r} unpacked as {str(g)!r}', sig='molecule')
                    return
        ok, d = rec.guard('rxn-dispatch', any_unpack, data, **kw)
        if ok and (not isinstance(d, ReactionContainer) or [len(d.reactants), len(d.reagents), len(d.products)] != [len(x) for x in roles]):
            rec.fail('dispatch', f'{label}: chython.unpack() returned {type(d).__name__} {d}')
            return
    ok, pl = rec.guard('rxn-pack-len', ReactionContainer.pack_len, comp)
    if ok and [list(x) for x in pl] != [[len(m) for m in ms] for ms in roles]:
        rec.fail('pack-len', f'{label}: pack_len {pl} != {[[len(m) for m in ms] for ms in roles]}', sig='reaction')
        return
    rec.sample('reaction', str(r), cap=5)


# ---------------------------------------------------------------------------------------------------

_ZIP = {}


def check_published(case, rec):
    from chython import MoleculeContainer, smiles
    i = case['published']
    if 'z' not in _ZIP:
        _ZIP['z'] = zipfile.ZipFile(os.path.join(REPO, 'pach', 'SI.zip'))
    data = _ZIP['z'].read(f'data/{i}.pach')
    raw = zlib.decompress(data)
    label = f'published pack {i}'
    ok, m = rec.guard('published-unpack', MoleculeContainer.unpack, data)
    if not ok:
        return
    dec = packref.decode(raw)
    rec.nt(raw)
    if list(m._atoms) != [a['n'] for a in dec['atoms']]:
        rec.fail('published', f'{label}: atom numbers/order differ from the reference decoder', sig='atoms')
        return
    for a in dec['atoms']:
        x = m.atom(a['n'])
        iso = None if not a['iso'] else a['iso'] + x.mdl_isotope - 16
        st_ = None if not (a['th'] or a['al']) else bool((a['th'] or a['al']) & 1)
        if (x.atomic_number, x.isotope, x.charge, x.is_radical, x.implicit_hydrogens, x.stereo) != \
                (a['z'], iso, a['ch'], a['rad'], a['h'], st_) or list(m._bonds[a['n']]) != dec['adj'][a['n']] or \
                struct.pack('>e', x.x) != a['xy_bytes'][:2] or struct.pack('>e', x.y) != a['xy_bytes'][2:]:
            rec.fail('published', f'{label}: atom {a["n"]} differs from the reference decoder', sig='atom')
            return
    if any(m.bond(n, k).order != o for (n, k), o in dec['bonds'].items()):
        rec.fail('published', f'{label}: bond orders differ from the reference decoder', sig='bonds')
        return
    ok, again = rec.guard('published-repack', m.pack, compressed=False)
    if ok and again != raw:
        rec.fail('published-repack', f'{label}: pack(unpack(b)) != b')
        return
    if MoleculeContainer.pack_len(data) != len(dec['atoms']):
        rec.fail('pack-len', f'{label}: pack_len')
        return
    # constitution equals the csv row
    row = smiles(molgen.corpus()[i])
    a, b = m.copy(), row
    a.clean_stereo()
    b.clean_stereo()
    try:
        molgen.normalise(a)
        molgen.normalise(b)
    except molgen.Reject:
        rec.count('published:row-not-normalisable')
        return
    if str(a) != str(b):
        rec.fail('published-constitution', f'{label}: {str(a)!r} != csv row {str(b)!r}')
        return
    if i % 500 == 0:
        rec.sample('published', dict(index=i, smiles=str(m)), cap=5)


def check_scaffold(case, rec):
    from chython import MoleculeContainer
    from chython.periodictable import Element
    kind = case['scaffold']
    if kind == 'stars':
        for k in range(0, 16):
            m = MoleculeContainer()
            c = m.add_atom('Pt', 4095 - k)
            for j in range(k):
                m.add_bond(c, m.add_atom('Cl', 7 * j + 1), [1, 8][j % 2])
            rec.evaluations += 1
            raw = check_pack(m, rec, f'star with {k} neighbours')
            if raw is None:
                return
            rec.nt(raw)
        # residues mod 8 of the bond-order block: chains of 1..17 bonds with mixed orders
        for nb in range(1, 18):
            m = MoleculeContainer()
            prev = m.add_atom('C', 300)
            for j in range(nb):
                n = m.add_atom('C', 301 + j * 13)
                m.add_bond(prev, n, [1, 2, 1, 3, 1, 2, 8][j % 7])
                prev = n
            rec.evaluations += 1
            raw = check_pack(m, rec, f'chain with {nb} bonds')
            if raw is None:
                return
            rec.nt(raw)
    elif kind == 'sweep':
        from .c18 import SYMBOLS
        k = 0
        for z, sym in enumerate(SYMBOLS, 1):
            cls = Element.from_symbol(sym)
            for iso in [None] + sorted(cls().isotopes_distribution):
                k += 1
                m = MoleculeContainer()
                m.add_atom(cls(iso, charge=(k % 9) - 4, is_radical=bool(k % 2)), (k * 37) % 4095 + 1)
                m.atom(next(iter(m)))._implicit_hydrogens = [0, 1, 2, 3, 4, 5, 6, None][k % 8]
                rec.evaluations += 1
                raw = check_pack(m, rec, f'{sym} isotope {iso}')
                if raw is None:
                    return
                rec.nt(raw)
    else:
        bad = []
        m = MoleculeContainer()
        m.add_atom('C', 4096)
        bad.append(('number > 4095', m))
        m = MoleculeContainer()
        c = m.add_atom('Pt')
        for _ in range(16):
            m.add_bond(c, m.add_atom('Cl'), 1)
        bad.append(('16 neighbours', m))
        bad.append(('empty molecule', MoleculeContainer()))
        for what, m in bad:
            rec.evaluations += 1
            try:
                m.pack()
            except ValueError:
                rec.nt(what)
                continue
            except Exception as e:
                rec.fail('limits', f'{what}: {type(e).__name__} instead of ValueError', sig=what)
                continue
            rec.fail('limits', f'{what}: accepted by pack(check=True)', sig=what)
        for data in (b'', b'\x05\x00\x00\x00', zlib.compress(b'\x07')):
            try:
                MoleculeContainer.unpack(data)
            except (ValueError, zlib.error, IndexError):
                pass

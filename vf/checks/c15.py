"""
C15 - reactions: role-preserving I/O, order-free identity, exact condensed graph.  DESIGN 2/C15.
"""
import random as _random

from hypothesis import strategies as st

from .. import molgen
from ..core import hyp_run

ID = 'C15'
RULE = ('reactions assembled from generated molecules (1-3 reactant molecules, 0-2 reagents incl. multi-component salts and radicals) '
        'by a drawn list of ground-truth edits (bond order change, bond formed, bond cleaved, charge +-1, radical toggle, atom '
        'leaving, atom joining) applied to a copy of the reactant side, so the dynamic atoms and bonds are known by construction; '
        'roles may be empty; molecules inside a role are permuted and both sides renumbered consistently. oracles: str(reaction) '
        'invariant under role-internal order and renumbering; SMILES (plain and mapped) reads back to the same roles/molecules; '
        'condensed graph centre atoms and every (order, p_order)/(charge, p_charge)/(radical, p_radical) equal the ground truth; '
        'contract_ions() / remove_reagents() on a reaction with warm caches against a fresh reaction with the same roles. identical sides have no centre; str(condensed graph) invariant. non-trivial = >= 1 edit and >= 2 molecules in a role; '
        'distinct by mapped reaction string'
        '; also: explicify_hydrogens on reactions with reagents: unique numbers per role, reagents disjoint, no spectator atom in the centre.')
ASSUMPTIONS = ['molecules are built through the public API from plain graphs computed by the check (own component split)',
               'canonical molecule strings are used to compare role contents (their invariance is C01\'s subject; C01 gaps are skipped)']


def shards(tier, seed):
    n = 180 if tier == 'quick' else 4000
    return [dict(shard=i, n=n) for i in range(12)]


def run_shard(shard, tier, seed):
    specs = molgen.mol_specs(max_atoms=9, corpus_w=3, curated_w=3, graph_w=6, literal_w=0, sym_w=1)
    edit = st.tuples(st.sampled_from(['order', 'form', 'cleave', 'charge', 'radical', 'leave', 'join', 'none']),
                     st.integers(0, 2 ** 16), st.integers(0, 2 ** 16))
    strat = st.fixed_dictionaries({'mols': st.lists(specs, min_size=1, max_size=3), 'reagents': st.lists(specs, max_size=2),
                                   'edits': st.lists(edit, max_size=4), 'seed': st.integers(0, 2 ** 31),
                                   'drop': st.sampled_from(['none'] * 6 + ['reactants', 'products', 'reagents-only'])})
    return hyp_run(ID, strat, check_case, max_examples=shard['n'], seed=seed * 1000 + shard['shard'])


def to_graph(m, offset):
    """plain graph of a Kekule molecule with atom numbers shifted to be globally unique"""
    mp = {n: i + offset for i, n in enumerate(m, 1)}
    atoms = {mp[n]: [a.atomic_symbol, a.isotope, a.charge, a.is_radical] for n, a in m.atoms()}
    bonds = {frozenset((mp[a], mp[b])): bond.order for a, b, bond in m.bonds()}
    return atoms, bonds


def components(atoms, bonds):
    adj = {n: set() for n in atoms}
    for e in bonds:
        a, b = tuple(e)
        adj[a].add(b)
        adj[b].add(a)
    seen, out = set(), []
    for s in sorted(atoms):
        if s in seen:
            continue
        comp, stack = {s}, [s]
        while stack:
            v = stack.pop()
            for w in adj[v]:
                if w not in comp:
                    comp.add(w)
                    stack.append(w)
        seen |= comp
        out.append(sorted(comp))
    return out


def build(atoms, bonds, nodes, mp=None, order=None):
    from chython import MoleculeContainer
    from chython.periodictable import Element
    m = MoleculeContainer()
    nodes = list(nodes) if order is None else order
    for n in nodes:
        sym, iso, ch, rad = atoms[n]
        m.add_atom(Element.from_symbol(sym)(iso, charge=ch, is_radical=rad), n if mp is None else mp[n])
    s = set(nodes)
    for e, o in bonds.items():
        a, b = tuple(e)
        if a in s and b in s:
            m.add_bond(a if mp is None else mp[a], b if mp is None else mp[b], o)
    return m


def check_case(case, rec):
    from chython import ReactionContainer, smiles
    rnd = _random.Random(case['seed'])
    atoms, bonds = {}, {}
    salts = []
    for spec in case['mols']:
        try:
            m = molgen.build_kekule(spec)
        except molgen.Reject as e:
            rec.count(f'generator-reject:{e}')
            continue
        m.clean_stereo()
        a, b = to_graph(m, len(atoms) * 1 + (max(atoms) if atoms else 0))
        atoms.update(a)
        bonds.update(b)
    if not atoms:
        return
    # ---- ground-truth edits on the product side
    patoms = {n: list(v) for n, v in atoms.items()}
    pbonds = dict(bonds)
    truth_bonds = {}   # frozenset -> (order, p_order)
    changed_atoms = set()
    nums = sorted(atoms)
    applied = []
    for kind, x, y in case['edits']:
        common = [n for n in nums if n in patoms]
        if not common:
            break
        a = common[x % len(common)]
        if kind == 'order':
            es = [e for e in pbonds if e in bonds and e not in truth_bonds]
            if not es:
                continue
            e = sorted(es, key=sorted)[x % len(es)]
            new = [o for o in (1, 2, 3) if o != pbonds[e]][y % 2]
            truth_bonds[e] = (bonds[e], new)
            pbonds[e] = new
        elif kind == 'cleave':
            es = [e for e in pbonds if e in bonds and e not in truth_bonds]
            if not es:
                continue
            e = sorted(es, key=sorted)[x % len(es)]
            truth_bonds[e] = (bonds[e], None)
            del pbonds[e]
        elif kind == 'form':
            b = common[y % len(common)]
            e = frozenset((a, b))
            if a == b or e in pbonds or e in bonds:
                continue
            truth_bonds[e] = (None, 1)
            pbonds[e] = 1
        elif kind == 'charge':
            if a in changed_atoms:
                continue
            patoms[a][2] = patoms[a][2] + (1 if y % 2 else -1)
            if not -4 <= patoms[a][2] <= 4:
                patoms[a][2] = atoms[a][2]
                continue
            changed_atoms.add(a)
        elif kind == 'radical':
            if a in changed_atoms:
                continue
            patoms[a][3] = not patoms[a][3]
            changed_atoms.add(a)
        elif kind == 'leave':
            if len(common) < 2 or a in changed_atoms or any(a in e for e in truth_bonds):
                continue
            for e in [e for e in pbonds if a in e]:
                if e in bonds:
                    truth_bonds[e] = (bonds[e], None)
                del pbonds[e]
            del patoms[a]
        elif kind == 'join':
            n = max(max(atoms), max(patoms)) + 1
            patoms[n] = [['C', 'O', 'N', 'Cl'][y % 4], None, 0, False]
            e = frozenset((a, n))
            pbonds[e] = 1
            truth_bonds[e] = (None, 1)
        else:
            continue
        applied.append(kind)
    # ---- assemble molecules
    r_mols = [build(atoms, bonds, c) for c in components(atoms, bonds)]
    p_mols = [build(patoms, pbonds, c) for c in components(patoms, pbonds)]
    g_mols = []
    for spec in case['reagents']:
        try:
            g = molgen.build_kekule(spec)
        except molgen.Reject:
            continue
        g.clean_stereo()
        off = max(max(atoms), max(patoms)) + 1 + sum(len(x) for x in g_mols) + 50 * len(g_mols)
        ga, gb = to_graph(g, off)
        g_mols.append(build(ga, gb, sorted(ga)))
    if case['drop'] == 'reactants':
        r_mols = []
    elif case['drop'] == 'products':
        p_mols = []
    elif case['drop'] == 'reagents-only':
        if not g_mols:
            return
        r_mols, p_mols = [], []
    if not (r_mols or p_mols or g_mols):
        return
    if len(r_mols) > 250 or len(p_mols) > 250:
        return
    rxn = ReactionContainer(r_mols, p_mols, g_mols)
    label = repr(format(rxn, 'm'))
    rec.count(f'roles:{min(len(r_mols), 3)}-{min(len(g_mols), 3)}-{min(len(p_mols), 3)}')
    if applied and (len(r_mols) > 1 or len(p_mols) > 1 or len(g_mols) > 1):
        rec.nt(format(rxn, 'm'))
    ok, s0 = rec.guard('str', str, rxn)
    if not ok:
        return
    # ---- order-free identity
    def shuffled(x):
        x = [m.copy() for m in x]
        rnd.shuffle(x)
        return x
    rxn2 = ReactionContainer(shuffled(r_mols), shuffled(p_mols), shuffled(g_mols))
    if str(rxn2) != s0 or rxn2 != rxn or hash(rxn2) != hash(rxn):
        if not _c01_gap(r_mols + p_mols + g_mols):
            rec.fail('order-free', f'{label}: permuting molecules inside the roles changes the string: {s0!r} vs {str(rxn2)!r}')
            return
    # ---- consistent renumbering
    alln = sorted(set(atoms) | set(patoms) | {n for g in g_mols for n in g})
    mp = dict(zip(alln, rnd.sample(range(1, 3000), len(alln))))

    def renum(mols):
        out = []
        for m in mols:
            c = m.copy()
            tmp = {n: 100000 + i for i, n in enumerate(c)}
            c.remap(tmp)
            c.remap({tmp[n]: mp[n] for n in m})
            out.append(c)
        return out
    rxn3 = ReactionContainer(renum(r_mols), renum(p_mols), renum(g_mols))
    in_gap = _c01_gap(r_mols + p_mols + g_mols)
    if str(rxn3) != s0 and not in_gap:
        rec.fail('renumbering', f'{label}: consistent renumbering changes the string: {s0!r} vs {str(rxn3)!r}')
        return
    # ---- SMILES round trips (molecule identity only for valence-valid reactions: edits may leave impossible valences,
    #      whose hydrogens/aromaticity a reader is free to repair)
    valid = not any(m.check_valence() for m in r_mols + p_mols + g_mols)
    rec.count('valence-valid reaction' if valid else 'reaction with valence-invalid molecule (molecule identity not compared)')
    for fmt in ('', 'm'):
        text = format(rxn, fmt) if fmt else s0
        ok, back = rec.guard('read-back', smiles, text)
        if not ok:
            return
        if not isinstance(back, ReactionContainer):
            rec.fail('read-back', f'{label}: {text!r} read as {type(back).__name__}')
            return
        got = (back.reactants, back.reagents, back.products)
        want = (r_mols, g_mols, p_mols)
        if [len(x) for x in got] != [len(x) for x in want]:
            rec.fail('roles', f'{label}: {text!r}: role sizes {[len(x) for x in want]} written, {[len(x) for x in got]} read',
                     sig='empty' if not (r_mols and p_mols) else 'sizes')
            return
        for gs, ws in zip(got, want):
            a = sorted(_norm(m) for m in gs)
            b = sorted(_norm(m) for m in ws)
            if a != b and not in_gap and valid:
                rec.fail('roles', f'{label}: {text!r}: molecules of a role differ after reading: {a} vs {b}', sig='molecules')
                return
            if fmt == 'm' and sorted(sorted(m) for m in gs) != sorted(sorted(m) for m in ws):
                rec.fail('roles', f'{label}: mapped SMILES does not restore the atom numbers', sig='numbers')
                return
    # ---- condensed graph against the ground truth
    if r_mols or p_mols:
        ok, cgr = rec.guard('compose', lambda: ~rxn)
        if not ok:
            return
        if not _cgr_ok(cgr, atoms if r_mols else {}, bonds if r_mols else {}, patoms if p_mols else {}, pbonds if p_mols else {},
                       g_mols, rec, label):
            return
        ok, cs = rec.guard('cgr-str', str, cgr)
        if not ok:
            return
        ok, cgr3 = rec.guard('compose', lambda: ~rxn3)
        if ok:
            ok, cs3 = rec.guard('cgr-str', str, cgr3)
            if ok and cs3 != cs and not in_gap and not _cgr_symmetric(cgr):
                rec.fail('cgr-renumbering', f'{label}: condensed graph string {cs!r} becomes {cs3!r} after consistent renumbering')
                return
        ok, cgr2 = rec.guard('compose', lambda: ~rxn2)
        if ok and (set(cgr2.center_atoms) != set(cgr.center_atoms) or _cgr_plain(cgr2) != _cgr_plain(cgr)):
            rec.fail('cgr-order', f'{label}: condensed graph depends on the order of molecules within a side')
            return
        if r_mols and p_mols and not truth_bonds and not changed_atoms and set(atoms) == set(patoms):
            if cgr.center_atoms or '>' in cs:
                rec.fail('cgr-identity', f'{label}: identical sides but centre {cgr.center_atoms} / string {cs!r}')
                return
    # ---- explicit hydrogens added to every molecule of the reaction: atom numbers stay unique per side, molecules that shared no
    # number before (spectator reagents vs the rest) share none afterwards, and the heavy-atom centre of the condensed graph is unchanged
    w = rxn.copy()
    try:
        before_centre = set(~w.copy().center_atoms) if False else None
    except Exception:
        before_centre = None
    try:
        c0 = ~rxn
        heavy0 = {n for n in c0.center_atoms}
    except Exception:
        heavy0 = None
    try:
        w.explicify_hydrogens()
        ok_h = True
    except Exception as e:
        ok_h = False
        rec.count(f'explicify-refused:{type(e).__name__}')
    if ok_h:
        side = lambda ms: [n for x in ms for n in x]
        for name, ms in (('reactants', w.reactants), ('products', w.products), ('reagents', w.reagents)):
            ns = side(ms)
            if len(ns) != len(set(ns)):
                rec.fail('explicify-numbers', f'{label}: duplicate atom numbers among the {name} after explicify_hydrogens()', sig=name)
                return
        g0 = set(side(rxn.reagents))
        if not g0 & (set(side(rxn.reactants)) | set(side(rxn.products))):
            if set(side(w.reagents)) & (set(side(w.reactants)) | set(side(w.products))):
                rec.fail('explicify-numbers', f'{label}: after explicify_hydrogens() a reagent atom shares its number with a reactant or '
                                              f'product atom', sig='reagent-overlap')
                return
        if heavy0 is not None and r_mols and p_mols:
            try:
                c1 = ~w
                heavy1 = {n for n in c1.center_atoms if c1.atom(n).atomic_number != 1}
                if heavy1 - heavy0 - {n for n in heavy1 if n not in c0._atoms}:
                    extra = heavy1 - heavy0
                    if any(n in g0 for n in extra):
                        rec.fail('explicify-numbers', f'{label}: spectator reagent atoms {sorted(n for n in extra if n in g0)} enter the '
                                                      f'reaction centre after explicify_hydrogens()', sig='reagent-centre')
                        return
            except Exception:
                pass
        rec.count('explicify-reactions')
    # ---- mutators that change the roles must leave no stale reaction-level cache: after contract_ions() / remove_reagents() on a
    # reaction whose string, hash and layout were computed before, the string must be that of a fresh reaction with the same roles
    for op in ('contract_ions', 'remove_reagents'):
        w = rxn.copy()
        try:
            w.fix_positions()
            str(w), hash(w)
            try:
                str(~w)
            except Exception:
                pass
            try:
                changed = getattr(w, op)()
            except ValueError:  # documented refusals (MappingError: no reaction centre, empty roles ...)
                if op != 'remove_reagents':
                    rec.count(f'mutator:{op}:refused')
                    continue
                try:
                    changed = w.remove_reagents(mapping=False)
                except ValueError:
                    rec.count(f'mutator:{op}:refused')
                    continue
        except Exception as e:
            from ..core import chython_frame
            fr = chython_frame(e.__traceback__)
            if fr == 'outside-chython':
                raise
            rec.fail('mutator', f'{label}: {op}() raised {type(e).__name__}: {e}', sig=f'{op}:{type(e).__name__}@{fr}')
            return
        fresh = ReactionContainer([x.copy() for x in w.reactants], [x.copy() for x in w.products], [x.copy() for x in w.reagents])
        rec.count(f'mutator:{op}{":changed" if changed else ""}')
        if str(w) != str(fresh) or (w == fresh) is False or hash(w) != hash(fresh):
            rec.fail('stale-reaction-cache', f'{label}: after {op}() str() gives {str(w)!r}, a fresh reaction with the same roles '
                                             f'{str(fresh)!r}', sig=op)
            return
    rec.sample('reaction', format(rxn, 'm'), cap=6)


def _norm(m):
    """molecules are built and written in Kekule form; the reader returns the same Kekule graph: no aromatisation involved"""
    return str(m)


def _c01_gap(mols):
    from ..oracles import wl
    for m in mols:
        try:
            col, adj = wl.constitution(m)
            if wl.local_swap_ok(col, adj) or wl.gap_b(m, wl.orbits(col, adj)):
                return True
        except TimeoutError:
            return True
    return False


def _cgr_symmetric(cgr):
    """the condensed graph has a ranking tie that is not a symmetry (the C01 known finding on tie-breaking by atom order), decided
    on the dynamic labelled graph by the independent refinement/orbit oracle - not by the library's own ordering"""
    from ..oracles import wl
    col = {n: (a.atomic_symbol, a.isotope, a.charge, a.p_charge, a.is_radical, a.p_is_radical) for n, a in cgr.atoms()}
    adj = {n: {} for n in col}
    for a, b, bond in cgr.bonds():
        adj[a][b] = adj[b][a] = (bond.order or 0, bond.p_order or 0)  # None (no bond on that side) -> 0: sortable labels
    try:
        return bool(wl.local_swap_ok(col, adj))
    except TimeoutError:
        return True


def _cgr_plain(cgr):
    return ({n: (a.atomic_symbol, a.isotope, a.charge, a.p_charge, a.is_radical, a.p_is_radical) for n, a in cgr.atoms()},
            {frozenset((a, b)): (bond.order, bond.p_order) for a, b, bond in cgr.bonds()})


def _cgr_ok(cgr, atoms, bonds, patoms, pbonds, g_mols, rec, label):
    """every atom/bond of the condensed graph against the two sides computed by the check"""
    ratoms, rbonds = dict(atoms), dict(bonds)
    for g in g_mols:  # reagents are unchanged molecules of the reactant side
        for n, a in g.atoms():
            ratoms[n] = [a.atomic_symbol, a.isotope, a.charge, a.is_radical]
        for a, b, bond in g.bonds():
            rbonds[frozenset((a, b))] = bond.order
    got_atoms, got_bonds = _cgr_plain(cgr)
    want_atoms = {}
    for n in set(ratoms) | set(patoms):
        ra, pa = ratoms.get(n), patoms.get(n)
        if ra is None:
            ra = pa
        if pa is None:
            pa = ra
        want_atoms[n] = (ra[0], ra[1], ra[2], pa[2], ra[3], pa[3])
    if got_atoms != want_atoms:
        d = {n: (got_atoms.get(n), want_atoms.get(n)) for n in set(got_atoms) | set(want_atoms) if got_atoms.get(n) != want_atoms.get(n)}
        rec.fail('cgr-atoms', f'{label}: condensed graph atoms differ from the ground truth: {dict(list(d.items())[:3])}')
        return False
    want_bonds = {}
    for e in set(rbonds) | set(pbonds):
        a, b = tuple(e)
        o, p = rbonds.get(e), pbonds.get(e)
        # a bond whose both ends exist only on one side is copied unchanged (nothing to compare it with)
        if o is None and not (a in ratoms and b in ratoms):
            if a not in ratoms and b not in ratoms:
                o = p
        if p is None and not (a in patoms and b in patoms):
            if a not in patoms and b not in patoms:
                p = o
        want_bonds[e] = (o, p)
    if got_bonds != want_bonds:
        d = {tuple(sorted(e)): (got_bonds.get(e), want_bonds.get(e)) for e in set(got_bonds) | set(want_bonds)
             if got_bonds.get(e) != want_bonds.get(e)}
        rec.fail('cgr-bonds', f'{label}: condensed graph bonds (order, p_order) differ from the ground truth: {dict(list(d.items())[:3])}')
        return False
    centre = {n for n, v in want_atoms.items() if v[2] != v[3] or v[4] != v[5]}
    for e, (o, p) in want_bonds.items():
        if o != p:
            centre |= set(e)
    if set(cgr.center_atoms) != centre:
        rec.fail('cgr-centre', f'{label}: centre atoms {sorted(cgr.center_atoms)}, ground truth {sorted(centre)}')
        return False
    return True

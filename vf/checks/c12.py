"""
C12 - stereo signs are permutation-consistent and agree with an independent toolkit.  DESIGN 2/C12.
"""
import itertools

from hypothesis import strategies as st

from .. import molgen
from ..core import hyp_run, direct_run
from ..oracles import wl
from ..oracles.iso import perm_parity

ID = 'C12'
EXHAUSTIVE = {'quick': False, 'thorough': False}
RULE = ('(1) parity: for every labelled centre of generated molecules all 24 (6) neighbour orderings incl. implicit/explicit '
        'hydrogen positions are read back and set on fresh copies; double bonds and allenes: every substituent choice at either end; '
        'the reported sign must follow permutation parity computed from inversion counts. (2) exhaustive SMILES spellings of one '
        'centre: all 24 neighbour orders x centre first/middle x @/@@ x H inside/outside the bracket x ring-closure neighbours, and all '
        '/ \\ placements around a double bond, judged by RDKit. (3) inverting one label of an in-domain centre never gives an equal '
        'molecule; RDKit agrees the two are different. (4) labels written on non-stereogenic centres are dropped. (6) wedge notation: every single-wedge marking of a centre (any bond, up or down, from either allene terminal) on a generated drawing must be stored as a function of the geometric hand only. (5) marks written by the library in every style (canonical, random, asymmetric closures, explicit H, Kekule) for labelled molecules up to 18 atoms incl. polycycles are read by RDKit as the same molecule as the spelling of an independent writer. '
        'non-trivial = at least one label survives parsing; distinct by (canonical string, ordering / spelling)'
        '; also: axial family: ring-attached cumulenes with the ring at either terminal.'
        '; also: spelling families with endocyclic E/Z double bonds in rings of 8-10 (stereogenic) and 6-7 (label dropped).')
ASSUMPTIONS = ['parity from permutation cycle structure (vf/oracles/iso.py), independent of the library translation tables',
               'RDKit is the judge of the absolute convention for SMILES marks; chython supports carbon centres only',
               'centres with constitutionally equivalent substituents are outside clause (3) (C01 gap a)']

HAL = ['F', 'Cl', 'Br', 'I', 'N', 'O', 'S']


def shards(tier, seed):
    n = 500 if tier == 'quick' else 6000
    out = [dict(kind='parity', shard=i, n=n) for i in range(8)]
    out += [dict(kind='spell', part=i, parts=6) for i in range(6)]
    out += [dict(kind='mirror', shard=i, n=n) for i in range(2)]
    out += [dict(kind='writer', shard=i, n=n) for i in range(4)]
    out += [dict(kind='wedge', shard=i, n=n) for i in range(3)]
    out.append(dict(kind='wedge-fixed', n=6 if tier == 'quick' else 60))
    out.append(dict(kind='axial'))
    return out


# axis chirality: an exocyclic double bond on a ring with two equivalent arms plus a substituted ring atom opposite to it
# (4-alkylidene cyclohexanes, 3-alkylidene cyclobutanes, ring-ring linkers).  Written from the chain end and from the ring.
AXIAL = ['C/C=C1/CC[C@H](C)CC1', 'C[C@H]1CC/C(=C/C)CC1', 'C/C=C1/C[C@H](C)C1', 'C[C@H]1C/C(=C/C)C1', 'CC/C=C1/CC[C@H](O)CC1',
         'O[C@H]1CC/C(=C/CC)CC1', 'C/C=C1/CC[C@](C)(O)CC1', 'C/C(F)=C1/CC[C@H](C)CC1', 'C[C@H]1CCC(=C2CC[C@@H](C)CC2)CC1']


# centres with four heavy substituents (every bond can carry the wedge, every listing order occurs under rebuild)
WEDGE_FIXED = ['CC(F)=C=C(Cl)Br', 'CC(F)=C=C(C)Cl', 'CC(N)=C=C(O)CC', 'FC(Cl)=C=C(C)C(C)=O', 'CC(F)=C=C=C=C(Cl)Br',
               'CC(F)(Cl)Br', 'CC(O)(N)C(C)=O', 'CC1(F)CCCC1Cl', 'OC(C)(CC)C(F)(Cl)C', 'CC(F)=C=C(Cl)C(C)(O)N']


def run_shard(shard, tier, seed):
    if shard['kind'] == 'spell':
        cases = [c for i, c in enumerate(spellings()) if i % shard['parts'] == shard['part']]
        return direct_run(ID, cases, check_case)
    specs = molgen.mol_specs(max_atoms=12, corpus_w=4, curated_w=4, graph_w=5, literal_w=1, sym_w=2)
    if shard['kind'] == 'axial':
        return direct_run(ID, [{'axial': t} for t in AXIAL], check_case)
    if shard['kind'] == 'wedge-fixed':
        cases = [{'wedge': {'k': 'smi', 's': t}, 'layout': lay, 'seed': seed * 1000 + i}
                 for t in WEDGE_FIXED for lay in ('rdkit', 'clean2d') for i in range(shard['n'])]
        return direct_run(ID, cases, check_case)
    if shard['kind'] == 'wedge':
        strat = st.fixed_dictionaries({'wedge': specs, 'layout': st.sampled_from(['rdkit', 'rdkit', 'clean2d']),
                                       'seed': st.integers(0, 2 ** 31)})
        return hyp_run(ID, strat, check_case, max_examples=shard['n'], seed=seed * 1000 + 300 + shard['shard'])
    if shard['kind'] == 'writer':
        big = molgen.mol_specs(max_atoms=18, corpus_w=6, curated_w=4, graph_w=5, literal_w=1, sym_w=2)
        strat = st.fixed_dictionaries({'writer': big, 'fmt': st.sampled_from(['', 'r', 'r', 'a', 'ar', 'rh', 'A', 'rA']),
                                       'seed': st.integers(0, 2 ** 31)})
        return hyp_run(ID, strat, check_case, max_examples=shard['n'], seed=seed * 1000 + 200 + shard['shard'])
    key = 'parity' if shard['kind'] == 'parity' else 'mirror'
    strat = st.fixed_dictionaries({key: specs, 'seed': st.integers(0, 2 ** 31)})
    return hyp_run(ID, strat, check_case, max_examples=shard['n'],
                   seed=seed * 1000 + shard['shard'] + (0 if key == 'parity' else 100))


def check_writer(case, rec):
    """marks written by the library (canonical, random order, asymmetric closures, explicit H counts, Kekule bonds) against marks
    written for the same labelled graph by the independent writer: RDKit must read both as one molecule"""
    import random as _random
    from ..oracles import smiles_ref, wl
    from .c03 import rdkit_same
    try:
        m = molgen.build_kekule(case['writer'])
    except molgen.Reject as e:
        rec.count(f'generator-reject:{e}')
        return
    if not any(a.stereo is not None for _, a in m.atoms()) and not any(b.stereo is not None for *_, b in m.bonds()):
        rec.count('writer:no-label')
        return
    if any(b.order == 8 for *_, b in m.bonds()) or any(m.atom(n).stereo is not None for n in m.stereogenic_allenes) or \
            any(len(p) > 2 and len(p) % 2 == 0 and m.bond(p[len(p) // 2 - 1], p[len(p) // 2]).stereo is not None
                for p in m.stereogenic_cumulenes):
        rec.count('writer:skip (coordinate bonds / allene / cumulene stereo are not judged by RDKit)')
        return
    try:
        col, adj = wl.constitution(m)
        orb = wl.orbits(col, adj)
        if wl.gap_a(m, orb) or wl.odd_label_orbit(m, orb) or wl.annulene_stereo(m) or wl.radialene_stereo(m) or \
                wl.ring_diene_stereo(m):
            rec.count('writer:skip (pseudo-asymmetric domain or recorded writer findings: judged in C01/C02)')
            return
    except TimeoutError:
        return
    r = smiles_ref.write_random(m, case['seed'], style=dict(aromatic=False))
    if r is None:
        rec.count('writer:reference-writer-not-applicable')
        return
    _random.seed(case['seed'])
    text = format(m, case['fmt']) if case['fmt'] else str(m)
    same = rdkit_same(text, r[0])
    if same is None:
        rec.count('writer:rdkit-not-comparable')
        return
    rec.nt((text, case['fmt']))
    rec.count(f'writer:format-{case["fmt"] or "canonical"}')
    if not same:
        rec.fail('writer-marks', f'format {case["fmt"]!r} of {str(m)!r} wrote {text!r}; the independent writer spells the same labelled '
                                 f'graph {r[0]!r}; RDKit reads them as different molecules', sig=case['fmt'].replace('r', '') or 'plain')
        return
    rec.sample('writer', dict(library=text, reference=r[0]), cap=4)


def _det3(a, b, c):
    return a[0] * (b[1] * c[2] - b[2] * c[1]) - a[1] * (b[0] * c[2] - b[2] * c[0]) + a[2] * (b[0] * c[1] - b[1] * c[0])


def _spread(vectors, slack=0.35):
    """in-plane directions are well separated and do not leave a half plane empty-handed (largest angular gap < 180 deg - slack)"""
    import math
    ang = sorted(math.atan2(y, x) for x, y in vectors)
    gaps = [(ang[(i + 1) % len(ang)] - ang[i]) % (2 * math.pi) for i in range(len(ang))]
    if len(ang) == 1:
        return True
    return min(gaps) > slack and max(gaps) < math.pi - (slack if len(ang) >= 3 else -math.pi)


def check_wedge(case, rec):
    """wedge notation: on a drawing, every way of marking ONE bond of a centre up or down describes one of two hands; the hand is
    computed here from coordinates and wedge (triple product). the configuration the library stores must be a function of the hand
    only - whichever bond carries the wedge, from whichever end atom of an allene (metamorphic, no convention assumed)"""
    import random as _random
    from chython.exceptions import NotChiral, IsChiral
    from .c11 import layout
    try:
        m = molgen.build_kekule(case['wedge']).copy()
    except molgen.Reject as e:
        rec.count(f'generator-reject:{e}')
        return
    if len(m) > 40:
        return
    m.clean_stereo()
    # drawn insertion order of atoms and bonds: which substituent is "first listed" at a centre varies
    m, _mp, _left = molgen.rebuild(m, case['seed'], max_number=900, with_xy=False)
    centres = [('t', n) for n in sorted(m.chiral_tetrahedrons)] + [('a', n) for n in sorted(m.chiral_allenes)]
    if not centres:
        rec.count('wedge:no-centre')
        return
    rnd = _random.Random(case['seed'])
    try:
        layout(m, case['layout'], rnd)
    except Exception:
        rec.count('wedge:layout-failed')
        return
    pos = {n: (round(a.x, 4), round(a.y, 4)) for n, a in m.atoms()}
    for kind, c in centres[:4]:
        results = []  # (wedge from, wedge to, mark, hand, stored sign for the reference environment)
        if kind == 't':
            env = m.stereogenic_tetrahedrons[c]
            nbs = [x for x in m._bonds[c] if m._bonds[c][x].order != 8]
            if any(m.atom(x).atomic_number == 1 for x in nbs) or len(nbs) != len(env):
                continue
            vec = {x: (pos[x][0] - pos[c][0], pos[x][1] - pos[c][1]) for x in nbs}
            if not _spread(list(vec.values())) or any(abs(v[0]) + abs(v[1]) < .2 for v in vec.values()):
                rec.count('wedge:layout-not-spread (not asserted)')
                continue
            for w in nbs:
                for mark in (1, -1):
                    p3 = {x: (vec[x][0], vec[x][1], float(mark) if x == w else 0.) for x in nbs}
                    if len(env) == 4:
                        d = _det3(*[tuple(p3[env[i]][k] - p3[env[3]][k] for k in range(3)) for i in range(3)])
                    else:
                        d = _det3(p3[env[0]], p3[env[1]], p3[env[2]])
                    if abs(d) < .05:
                        continue
                    y = m.copy()
                    try:
                        y.add_wedge(c, w, mark)
                    except (NotChiral, IsChiral):
                        continue
                    if y.atom(c).stereo is None:
                        continue
                    results.append((c, w, mark, d > 0, y._translate_tetrahedron_sign(c, env)))
        else:
            t1, t2 = m._stereo_allenes_terminals[c]
            env = m.stereogenic_allenes[c]
            a1, b1 = env[0], env[1]
            ends = {}
            for t, o in ((t1, t2), (t2, t1)):
                ends[t] = [x for x in m._bonds[t] if m._bonds[t][x].order == 1]
            if a1 not in ends[t1]:
                t1, t2 = t2, t1
            if a1 not in ends[t1] or b1 not in ends[t2] or any(m.atom(x).atomic_number == 1 for e in ends.values() for x in e):
                continue
            A, B = pos[t1], pos[t2]
            v = (B[0] - A[0], B[1] - A[1])
            u = (pos[a1][0] - A[0], pos[a1][1] - A[1])
            w_ = (pos[b1][0] - B[0], pos[b1][1] - B[1])
            cu, cw = u[0] * v[1] - u[1] * v[0], v[0] * w_[1] - v[1] * w_[0]
            if abs(cu) < .1 or abs(cw) < .1:
                rec.count('wedge:allene-substituent-on-the-axis (not asserted)')
                continue
            for t in (t1, t2):
                for sub in ends[t]:
                    for mark in (1, -1):
                        if t == t1:
                            uz = float(mark) if sub == a1 else -float(mark)
                            d = uz * cw          # u . (v x w), w in plane
                        else:
                            wz = float(mark) if sub == b1 else -float(mark)
                            d = wz * cu          # u in plane
                        y = m.copy()
                        try:
                            y.add_wedge(t, sub, mark)
                        except (NotChiral, IsChiral):
                            continue
                        if y.atom(c).stereo is None:
                            continue
                        results.append((t, sub, mark, d > 0, y._translate_allene_sign(c, a1, b1)))
        if len(results) < 2:
            continue
        rec.count(f'wedge:{"tetrahedron" if kind == "t" else "allene"}-centres')
        rec.nt((str(m), c, case['layout']))
        rel = {hand == sign for *_, hand, sign in results}
        if len(rel) != 1:
            a = next(r for r in results if (r[3] == r[4]) != (results[0][3] == results[0][4]))
            rec.fail('wedge-hand', f'{str(m)!r} centre {c} ({case["layout"]} layout): wedge {results[0][0]}->{results[0][1]} mark '
                                   f'{results[0][2]} and wedge {a[0]}->{a[1]} mark {a[2]} describe '
                                   f'{"the same hand" if results[0][3] == a[3] else "opposite hands"} but are stored as '
                                   f'{"opposite" if (results[0][4] != a[4]) == (results[0][3] == a[3]) else "the same"} configuration',
                     sig='allene' if kind == 'a' else 'tetrahedron')
            return
        if len({r[2] for r in results}) == 2 and any(r1[:2] == r2[:2] and r1[2] != r2[2] and r1[4] == r2[4]
                                                   for r1 in results for r2 in results):
            rec.fail('wedge-hand', f'{str(m)!r} centre {c}: up and down wedge on the same bond give the same configuration',
                     sig='up-down')
            return


def check_axial(case, rec):
    """the mirror image of an axially chiral molecule (one mark inverted) is never equal to it, and the marks are kept"""
    from chython import smiles
    text = case['axial']
    i = text.index('@')
    other = text[:i] + ('@' if text[i + 1] != '@' else '') + text[i + 1 + (text[i + 1] == '@'):] if False else None
    mirror = text.replace('@@', '\0').replace('@', '@@').replace('\0', '@')
    ok, pair = rec.guard('spelling-read', lambda: (smiles(text), smiles(mirror)))
    if not ok:
        return
    a, b = pair
    rec.nt(('axial', text))
    na = sum(x.stereo is not None for _, x in a.atoms()) + sum(x.stereo is not None for *_, x in a.bonds())
    if not na:
        rec.fail('axial', f'{text!r}: all marks dropped, read as {str(a)!r} (the axis makes the molecule chiral)', sig='dropped')
        return
    if a == b or str(a) == str(b):
        rec.fail('axial', f'{text!r} and its mirror image {mirror!r} are equal ({str(a)!r})', sig='mirror-equal')


def check_case(case, rec):
    if 'axial' in case:
        return check_axial(case, rec)
    if 'wedge' in case:
        return check_wedge(case, rec)
    if 'writer' in case:
        return check_writer(case, rec)
    if 'parity' in case:
        return check_parity(case, rec)
    if 'mirror' in case:
        return check_mirror(case, rec)
    return check_spelling(case, rec)


# ---------------------------------------------------------------------------------------------------
# (1) parity

def check_parity(case, rec):
    from chython.exceptions import NotChiral
    try:
        m = molgen.build_kekule(case['parity'])
    except molgen.Reject as e:
        rec.count(f'generator-reject:{e}')
        return
    ms = str(m)
    any_label = False
    for n, env in m.stereogenic_tetrahedrons.items():
        a = m.atom(n)
        if a.stereo is None:
            continue
        any_label = True
        full = list(env) + [x for x in m._bonds[n] if x not in env]  # explicit hydrogen (if any) last
        base = m._translate_tetrahedron_sign(n, env)
        orderings = []
        for p in itertools.permutations(full):
            orderings.append(p)  # 4 explicit neighbours (24) or 3 (6)
        if len(full) == 3:
            # implicit hydrogen: orderings of the three atoms; the hydrogen is by convention the 4th
            pass
        for p in orderings:
            ok, got = rec.guard('translate', m._translate_tetrahedron_sign, n, p)
            if not ok:
                return
            want = bool(base) ^ bool(perm_parity(full, list(p)))
            rec.count('tetrahedral orderings')
            if bool(got) != want:
                rec.fail('tetrahedral-parity', f'{ms!r} centre {n}: sign {base} for {full}, {got} for {list(p)} '
                                               f'(permutation parity {perm_parity(full, list(p))})',
                         sig='explicit-H' if len(env) != len(full) else ('implicit-H' if len(full) == 3 else '4-neighbours'))
                return
            rec.nt((ms, n, p))
        # three-atom environments of a 4-neighbour centre: dropping the last atom of an ordering keeps the sign
        if len(env) == 4:
            for p in itertools.permutations(full):
                ok, got3 = rec.guard('translate', m._translate_tetrahedron_sign, n, p[:3])
                if ok and bool(got3) != (bool(base) ^ bool(perm_parity(full, list(p)))):
                    rec.fail('tetrahedral-parity', f'{ms!r} centre {n}: three-atom environment {p[:3]} disagrees with {p}',
                             sig='3-of-4')
                    return
        # setting the label through every ordering on a fresh copy gives back the same configuration
        for p in orderings[::5]:
            c = m.copy()
            c.atom(n)._stereo = None
            c.flush_cache()
            try:
                c.add_atom_stereo(n, p, bool(base) ^ bool(perm_parity(full, list(p))))
            except NotChiral:
                rec.count('setter:not-chiral-without-own-label (dependent centre)')
                continue
            if c._translate_tetrahedron_sign(n, env) != base:
                rec.fail('tetrahedral-setter', f'{ms!r} centre {n}: add_atom_stereo with ordering {p} stores another configuration')
                return
    for path, env in m.stereogenic_cumulenes.items():
        n, k = path[0], path[-1]
        n1, m1, n2, m2 = env
        allene = len(path) % 2 == 1
        if allene:
            c = path[len(path) // 2]
            if m.atom(c).stereo is None:
                continue
            read = lambda x, y: m._translate_allene_sign(c, x, y)  # noqa
        else:
            i = len(path) // 2
            if m.bond(path[i - 1], path[i]).stereo is None:
                continue
            read = lambda x, y: m._translate_cis_trans_sign(n, k, x, y)  # noqa
        any_label = True
        base = read(n1, m1)
        subs_n = [x for x in (n1, n2) if x is not None]
        subs_k = [x for x in (m1, m2) if x is not None]
        # explicit hydrogens standing for the missing second substituent
        subs_n += [x for x in m._bonds[n] if m.atom(x).atomic_number == 1 and x not in subs_n and x != path[1]]
        subs_k += [x for x in m._bonds[k] if m.atom(x).atomic_number == 1 and x not in subs_k and x != path[-2]]
        for x in subs_n:
            for y in subs_k:
                ok, got = rec.guard('translate', read, x, y)
                if not ok:
                    return
                want = bool(base) ^ (x != n1) ^ (y != m1)
                rec.count('double-bond substituent pairs')
                rec.nt((ms, path, x, y))
                if bool(got) != want:
                    rec.fail('axis-parity', f'{ms!r} {"allene" if allene else "double bond"} {path}: sign {base} for ({n1}, {m1}), '
                                            f'{got} for ({x}, {y})', sig='allene' if allene else 'cis-trans')
                    return
                # the same pair named from the other end
                ok, got2 = rec.guard('translate', (lambda: m._translate_allene_sign(c, y, x)) if allene else
                                     (lambda: m._translate_cis_trans_sign(k, n, y, x)))
                if ok and bool(got2) != want:
                    rec.fail('axis-parity', f'{ms!r} {path}: naming the ends in reverse order changes the sign', sig='reverse')
                    return
    if any_label:
        rec.sample('parity', ms, cap=5)


# ---------------------------------------------------------------------------------------------------
# (3) mirror images are never equal, (4) labels only on stereogenic centres

def check_mirror(case, rec):
    try:
        m = molgen.build(case['mirror'])
    except molgen.Reject as e:
        rec.count(f'generator-reject:{e}')
        return
    # (4) every label sits on a centre the library itself lists as stereogenic, and never on a centre with two
    #     identical acyclic label-free substituents (sound necessary condition, independent of the library heuristics)
    col, adj = wl.constitution(m)
    for n, a in m.atoms():
        if a.stereo is None:
            continue
        if n not in m.stereogenic_tetrahedrons and n not in m.stereogenic_allenes:
            rec.fail('label-on-non-stereogenic', f'{str(m)!r}: atom {n} has a label but is not stereogenic')
            return
        if n in m.stereogenic_tetrahedrons:
            subs = list(m._bonds[n])
            if (a.implicit_hydrogens or 0) + sum(m.atom(x).atomic_number == 1 and len(m._bonds[x]) == 1 for x in subs) >= 2:
                rec.fail('label-on-non-stereogenic', f'{str(m)!r}: labelled atom {n} carries two hydrogens')
                return
            leaves = [(m.atom(x).atomic_number, m.atom(x).isotope, m.atom(x).charge, m.atom(x).implicit_hydrogens)
                      for x in subs if len(m._bonds[x]) == 1]
            if len(set(leaves)) < len(leaves):
                rec.fail('label-on-non-stereogenic', f'{str(m)!r}: labelled atom {n} has two identical terminal substituents')
                return
    labelled = [(n, 't') for n in m.stereogenic_tetrahedrons if m.atom(n).stereo is not None]
    labelled += [(p, 'c') for p in m.stereogenic_cumulenes if len(p) % 2 == 0 and m.bond(p[len(p) // 2 - 1], p[len(p) // 2]).stereo is not None]
    if not labelled:
        rec.count('no-label')
        return
    try:
        orb = wl.orbits(col, adj)
        if wl.gap_a(m, orb) or wl.odd_label_orbit(m, orb) or wl.annulene_stereo(m):
            rec.count('skip:pseudo-asymmetric domain')
            return
        # a single inverted label must give a different molecule only if no automorphism maps the centre set onto itself
        # in a way that restores it: require all labelled centres to be in distinct orbits
        keys = [orb[x[0]] if x[1] == 't' else frozenset((orb[x[0][0]], orb[x[0][-1]])) for x in labelled]
        if len(set(keys)) < len(keys):
            rec.count('skip:equivalent labelled centres (meso forms possible)')
            return
    except TimeoutError:
        return
    which = labelled[case['seed'] % len(labelled)]
    inv = m.copy()
    if which[1] == 't':
        inv.atom(which[0])._stereo = not inv.atom(which[0]).stereo
    else:
        p = which[0]
        b = inv.bond(p[len(p) // 2 - 1], p[len(p) // 2])
        b._stereo = not b.stereo
    inv.flush_cache()
    rec.nt((str(m), which[0] if which[1] == 't' else tuple(which[0])))
    if inv == m or str(inv) == str(m) or hash(inv) == hash(m) and str(inv) == str(m):
        rec.fail('mirror-equal', f'{str(m)!r}: inverting the label of {which[0]} gives an equal molecule {str(inv)!r}',
                 sig=which[1])
        return
    if any(b.order == 8 for *_, b in m.bonds()) or (which[1] == 'c' and len(which[0]) > 2):
        return  # RDKit has neither coordinate bonds in SMILES nor cumulene stereo
    if which[1] == 't' and any(orb[n] == orb[which[0]] for n in m.stereogenic_tetrahedrons if n != which[0]) or \
            which[1] == 'c' and any(frozenset((orb[p[0]], orb[p[-1]])) == frozenset((orb[which[0][0]], orb[which[0][-1]]))
                                    for p in m.stereogenic_cumulenes if tuple(p) != tuple(which[0])):
        # the inverted element has constitutionally equivalent partners without label: a partially specified symmetric molecule,
        # where RDKit's canonical form of the two partial descriptions can coincide (not a statement about the library)
        rec.count('rdkit-not-comparable (equivalent unlabelled centres)')
        return
    from .c03 import rdkit_same
    same = rdkit_same(str(m), str(inv))
    if same is None:
        rec.count('rdkit-not-comparable')
    elif same:
        rec.fail('mirror-rdkit', f'{str(m)!r} and {str(inv)!r} (one label inverted) are the same molecule for RDKit', sig=which[1])
    else:
        rec.count('rdkit-agrees-different')
        rec.sample('mirror', [str(m), str(inv)], cap=5)


# ---------------------------------------------------------------------------------------------------
# (2) exhaustive spellings of one centre / one double bond

def spellings():
    subs = ['F', 'Cl', 'Br', 'I']
    # four explicit substituents; centre first / second / last; branches
    for perm in itertools.permutations(subs):
        for mark in ('@', '@@'):
            a, b, c, d = perm
            yield {'spell': f'[C{mark}]({a})({b})({c}){d}', 'family': 'CFClBrI'}
            yield {'spell': f'{a}[C{mark}]({b})({c}){d}', 'family': 'CFClBrI'}
            yield {'spell': f'{a}[C{mark}]({b}){c}.{d}'.replace('.' + d, ''), 'family': None}  # three substituents, no H: not chiral
    subs3 = ['F', 'Cl', 'Br']
    for perm in itertools.permutations(subs3):
        for mark in ('@', '@@'):
            a, b, c = perm
            yield {'spell': f'[C{mark}H]({a})({b}){c}', 'family': 'CHFClBr'}
            yield {'spell': f'{a}[C{mark}H]({b}){c}', 'family': 'CHFClBr'}
            yield {'spell': f'{a}[C{mark}]([H])({b}){c}', 'family': 'CHFClBr'}
            yield {'spell': f'[H][C{mark}]({a})({b}){c}', 'family': 'CHFClBr'}
            yield {'spell': f'{a}[C{mark}]({b})({c})[H]', 'family': 'CHFClBr'}
            yield {'spell': f'O.{a}[C{mark}H]({b}){c}', 'family': 'CHFClBr.O'}
            yield {'spell': f'O.[C{mark}H]({a})({b}){c}', 'family': 'CHFClBr.O'}
            # ring-closure digits as neighbours
            yield {'spell': f'{a}[C{mark}H]1{b}.{c}1', 'family': 'CHFClBr'}
            yield {'spell': f'{a}1.[C{mark}H]1({b}){c}', 'family': 'CHFClBr'}
            yield {'spell': f'[C{mark}H]12{a}.{b}1.{c}2', 'family': 'CHFClBr'}
            yield {'spell': f'[C{mark}H]1({a}){b}.{c}1', 'family': 'CHFClBr'}
    # ring centre: 2-methylcyclohexanol-like, closure digit before/after the branch
    for mark1 in ('@', '@@'):
        for mark2 in ('@', '@@'):
            yield {'spell': f'C[C{mark1}H]1CCCC[C{mark2}H]1O', 'family': 'ring'}
            yield {'spell': f'O[C{mark2}H]1CCCC[C{mark1}H]1C', 'family': 'ring'}
            yield {'spell': f'[C{mark1}H]1(C)CCCC[C{mark2}H]1O', 'family': 'ring'}
            yield {'spell': f'C1CC[C{mark2}H](O)[C{mark1}H](C)C1', 'family': 'ring'}
    # double bonds: all placements of / and \\
    for s1 in '/\\':
        for s2 in '/\\':
            yield {'spell': f'F{s1}C=C{s2}Cl', 'family': 'FC=CCl'}
            yield {'spell': f'C(F)=C{s2}Cl'.replace('(F)', f'({s1}F)'), 'family': 'FC=CCl'}
            yield {'spell': f'F{s1}C=C({s2}Cl)', 'family': 'FC=CCl'}
            yield {'spell': f'Cl{s2}C=C{s1}F', 'family': 'FC=CCl'}
            yield {'spell': f'F{s1}C(I)=C{s2}Cl', 'family': 'FC(I)=CCl'}
            yield {'spell': f'I{s1}C(F)=C{s2}Cl', 'family': 'FC(I)=CCl'}
            yield {'spell': f'C(=C{s2}Cl)({s1}F)I', 'family': 'FC(I)=CCl'}
            yield {'spell': f'F{s1}C=C=C=C{s2}Cl', 'family': 'cumulene'}
            yield {'spell': f'F{s1}C=N{s2}O', 'family': 'oxime'}
            yield {'spell': f'F{s1}C=C{s2}1.Cl1', 'family': 'FC=CCl'}
            yield {'spell': f'F{s1}C=C1.Cl{s2}1', 'family': 'FC=CCl'}
            yield {'spell': f'F{s1}1.C1=C{s2}Cl', 'family': 'FC=CCl'}
            for s3 in '/\\':
                yield {'spell': f'F{s1}C=C{s2}C=C{s3}Cl', 'family': 'diene'}
    # endocyclic double bonds: stereogenic from ring size 8 on (the independent toolkit draws the same line), not below
    for n in (6, 7, 8, 9, 10):
        for k in range(1, n - 3):
            for s1 in '/\\':
                for s2 in '/\\':
                    text = f"C1{'C' * k}{s1}C=C{s2}{'C' * (n - 3 - k)}1"
                    if n >= 8:
                        yield {'spell': text, 'family': f'ring-ene-{n}'}
                        yield {'spell': f"C1{'C' * k}{s1}C(C)=C{s2}{'C' * (n - 3 - k)}1", 'family': f'ring-ene-{n}-Me'}
                    else:
                        yield {'spell': text, 'family': None, 'expect_no_label': True}
    # labels on non-stereogenic centres must be dropped
    for s in ('[C@](C)(C)(F)Cl', 'C[C@H](C)F', '[C@H2](F)Cl', 'C[C@@](C)(C)C', 'F/C=C(/Cl)Cl', 'C/C=C(C)/C', 'F/C(F)=C/Cl', 'N[C@](N)(O)O',
              'C[C@H]1CC1', 'F/C=C/1CCCCC1'.replace('/1', '1')):
        yield {'spell': s, 'family': None, 'expect_no_label': True}


_FAMILY = {}


def check_spelling(case, rec):
    from chython import smiles
    from .c03 import rdkit_same
    text = case['spell']
    ok, m = rec.guard('spelling-read', smiles, text)
    if not ok:
        return
    n_lab = sum(a.stereo is not None for _, a in m.atoms()) + sum(b.stereo is not None for *_, b in m.bonds())
    if case.get('expect_no_label') or case['family'] is None:
        if n_lab:
            rec.fail('label-on-non-stereogenic', f'{text!r}: {n_lab} label(s) kept on a centre that is not stereogenic -> {str(m)!r}')
        else:
            rec.nt(text)
        return
    if case['family'] == 'cumulene':
        # RDKit has no cumulene stereo: only self-consistency (re-reading the canonical string)
        if smiles(str(m)) != m:
            rec.fail('spelling-self', f'{text!r}: canonical string {str(m)!r} reads back differently')
        elif n_lab:
            rec.nt(text)
        return
    if n_lab:
        rec.nt(text)
    else:
        rec.fail('label-lost', f'{text!r}: stereogenic centre written with a mark but no label after reading', sig=case['family'])
        return
    same = rdkit_same(text, str(m))
    if same is None:
        rec.count('rdkit-not-comparable')
    elif not same:
        rec.fail('spelling-rdkit', f'{text!r} read as {str(m)!r}: a different molecule according to RDKit', sig=case['family'])
        return
    # the same centre as a later dot-separated component: position in the string must not change the configuration read
    if '.' not in text and '>' not in text:
        ok, pair = rec.guard('spelling-read', lambda: (smiles('O.' + text), smiles(text + '.O'), smiles('[Na+].' + text + '.[Cl-]'),
                                                       smiles('[Na+].[Cl-].' + text)))
        if ok:
            rec.count('spellings-as-later-component')
            if pair[0] != pair[1] or pair[2] != pair[3]:
                rec.fail('spelling-component', f'{text!r}: read as another stereoisomer when it is not the first dot-separated component '
                                               f'({str(pair[0])!r} vs {str(pair[1])!r})', sig=case['family'])
                return
    # the RDKit object of the same text (explicit hydrogens kept as atoms) converted by the bridge must carry the configuration the
    # library reads from the text itself, atom by atom (text order = RDKit atom order)
    try:
        from rdkit import Chem
        from chython.utils.rdkit import from_rdkit_molecule
        ps = Chem.SmilesParserParams()
        ps.removeHs = False
        rd = Chem.MolFromSmiles(text, ps)
    except Exception:
        rd = None
    if rd is not None and rd.GetNumAtoms() == len(m) and not any(b.order == 4 for *_, b in m.bonds()):
        ok, fr = rec.guard('bridge', from_rdkit_molecule, rd)
        if ok and len(fr) == len(m):
            mp = dict(zip(m, fr))
            d = molgen.compare_stereo(m, fr, mp)
            rec.count('spellings-through-the-rdkit-bridge')
            if d:
                rec.fail('spelling-bridge', f'{text!r}: from_rdkit_molecule(RDKit reading with explicit hydrogens) differs from the '
                                            f'library reading in {d[:2]}', sig=case['family'])
                return
    # all spellings RDKit considers the same molecule must be equal in chython, and vice versa
    # (explicit hydrogens are atoms for chython and are stripped by RDKit: fold them in first)
    if any(a.atomic_number == 1 for _, a in m.atoms()):
        m = m.copy()
        m.implicify_hydrogens()
    fam = _FAMILY.setdefault(case['family'], [])
    for t2, m2 in fam[-12:]:
        r = rdkit_same(text, t2)
        if r is None:
            continue
        if r != (m == m2):
            rec.fail('spelling-equality', f'{text!r} and {t2!r}: RDKit says {"same" if r else "different"}, chython '
                                          f'{"equal" if m == m2 else "unequal"} ({str(m)!r} / {str(m2)!r})', sig=case['family'])
            return
    fam.append((text, m))
    rec.sample(case['family'], text, cap=3)

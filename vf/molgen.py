"""
Molecule generators (DESIGN 1.2).  Everything random is drawn by Hypothesis; a generated molecule is described by a
plain-data *spec* (JSON-able) so that a failing case can be written to a replay file and rebuilt without Hypothesis.

spec kinds
  {'k': 'corpus', 'i': int}                               i-th SMILES of pach/lipophilicity.csv
  {'k': 'smi', 's': str}                                  literal SMILES (curated list / repository test literals)
  {'k': 'graph', 'atoms': [[sym, charge, iso_idx, rad]], 'bonds': [[i, j, order]], 'stereo': [0|1|2, ...]}
"""
import ast
import csv
import functools
import glob
import os
import random as _random

from hypothesis import strategies as st

from .boot import REPO, VERIF


# ---------------------------------------------------------------------------------------------------
# corpora

@functools.lru_cache(None)
def corpus():
    out = []
    with open(os.path.join(REPO, 'pach', 'lipophilicity.csv')) as f:
        for row in csv.DictReader(f):
            out.append(row['smiles'])
    return tuple(out)


@functools.lru_cache(None)
def curated():
    out = []
    for p in sorted(glob.glob(os.path.join(VERIF, 'corpus', '*.smi'))):
        for line in open(p):
            line = line.split('#')[0].strip()
            if line:
                out.append(line)
    return tuple(out)


@functools.lru_cache(None)
def test_literals():
    """string literals of the repository's test modules that chython parses as single molecules (never imported)"""
    from chython import smiles
    from chython.containers import MoleculeContainer
    cand = set()
    for p in glob.glob(os.path.join(REPO, 'chython', '**', 'test', '*.py'), recursive=True):
        try:
            tree = ast.parse(open(p).read())
        except SyntaxError:
            continue
        for node in ast.walk(tree):
            if isinstance(node, ast.Constant) and isinstance(node.value, str) and 0 < len(node.value) < 120 \
                    and ' ' not in node.value and '>' not in node.value and '\n' not in node.value:
                cand.add(node.value)
    out = []
    for s in sorted(cand):
        try:
            m = smiles(s)
        except Exception:
            continue
        if isinstance(m, MoleculeContainer) and len(m):
            out.append(s)
    return tuple(out)


# ---------------------------------------------------------------------------------------------------
# constructive generator

# pseudo-elements: (symbol, charge, capacity, weight)
PSEUDO = [('C', 0, 4, 40), ('N', 0, 3, 12), ('O', 0, 2, 12), ('S', 0, 2, 4), ('F', 0, 1, 3), ('Cl', 0, 1, 3),
          ('Br', 0, 1, 2), ('I', 0, 1, 1), ('P', 0, 3, 2), ('B', 0, 3, 1), ('Si', 0, 4, 1), ('Se', 0, 2, 1),
          ('S', 0, 6, 2), ('S', 0, 4, 1), ('P', 0, 5, 1),
          ('N', 1, 4, 3), ('O', -1, 1, 3), ('B', -1, 4, 1), ('S', 1, 3, 1), ('P', 1, 4, 1), ('N', -1, 2, 1),
          ('C', -1, 3, 1), ('S', -1, 1, 1), ('O', 1, 3, 1)]
_PSEUDO_POP = [i for i, p in enumerate(PSEUDO) for _ in range(p[3])]

# seed fragments in Kekule form: atoms (pseudo index by (sym, charge, cap)), bonds
def _ring(syms, orders):
    n = len(syms)
    return [list(s) for s in syms], [[i, (i + 1) % n, o] for i, o in enumerate(orders)]


C_, N_, O_, S_ = ('C', 0, 4), ('N', 0, 3), ('O', 0, 2), ('S', 0, 2)
FRAGMENTS = [
    ([], []),
    _ring([C_] * 6, [2, 1, 2, 1, 2, 1]),  # benzene
    _ring([N_] + [C_] * 5, [2, 1, 2, 1, 2, 1]),  # pyridine
    _ring([N_, C_, C_, C_, C_], [1, 2, 1, 2, 1]),  # pyrrole
    _ring([O_, C_, C_, C_, C_], [1, 2, 1, 2, 1]),  # furan
    _ring([S_, C_, C_, C_, C_], [1, 2, 1, 2, 1]),  # thiophene
    _ring([N_, C_, N_, C_, C_], [1, 2, 1, 2, 1]),  # imidazole
    _ring([C_] * 6, [1] * 6),  # cyclohexane
    _ring([C_] * 5, [1] * 5),
    _ring([C_] * 3, [1] * 3),
    _ring([C_] * 4, [1] * 4),
    _ring([C_, C_, C_, C_, C_, O_], [1] * 6),  # oxane
    _ring([C_] * 6, [2, 1, 1, 1, 1, 1]),  # cyclohexene
    _ring([C_] * 7, [1] * 7),
    _ring([C_] * 8, [2, 1, 2, 1, 2, 1, 2, 1]),  # COT
    # naphthalene
    ([list(C_)] * 10, [[0, 1, 2], [1, 2, 1], [2, 3, 2], [3, 4, 1], [4, 5, 2], [5, 0, 1], [4, 6, 1], [6, 7, 2], [7, 8, 1],
                       [8, 9, 2], [9, 5, 1]]),
    # indole
    ([list(N_)] + [list(C_)] * 8, [[0, 1, 1], [1, 2, 2], [2, 3, 1], [3, 4, 2], [4, 5, 1], [5, 6, 2], [6, 7, 1],
                                    [7, 8, 2], [8, 3, 1], [8, 0, 1]]),
    # spiro[4.5]decane, norbornane, decalin
    ([list(C_)] * 10, [[0, 1, 1], [1, 2, 1], [2, 3, 1], [3, 4, 1], [4, 0, 1], [0, 5, 1], [5, 6, 1], [6, 7, 1], [7, 8, 1],
                       [8, 9, 1], [9, 0, 1]]),
    ([list(C_)] * 7, [[0, 1, 1], [1, 2, 1], [2, 3, 1], [3, 4, 1], [4, 5, 1], [5, 0, 1], [0, 6, 1], [6, 3, 1]]),
    ([list(C_)] * 10, [[0, 1, 1], [1, 2, 1], [2, 3, 1], [3, 4, 1], [4, 5, 1], [5, 0, 1], [4, 6, 1], [6, 7, 1], [7, 8, 1],
                       [8, 9, 1], [9, 5, 1]]),
    # allene, butadiene, carboxylate-like C(=O)O, nitro written charge separated
    ([list(C_)] * 3, [[0, 1, 2], [1, 2, 2]]),
    ([list(C_)] * 4, [[0, 1, 2], [1, 2, 1], [2, 3, 2]]),
    ([list(C_), list(O_), list(O_)], [[0, 1, 2], [0, 2, 1]]),
    ([['N', 1, 4], ['O', -1, 1], list(O_)], [[0, 1, 1], [0, 2, 2]]),
    ([list(C_)] * 4, [[0, 1, 2], [1, 2, 2], [2, 3, 2]]),  # butatriene
]


def _rare(n):
    """True with probability ~1/n (sampled_from keeps Hypothesis from favouring the rare branch)"""
    return st.sampled_from([False] * (n - 1) + [True])


def _draw_graph(draw, max_atoms, single_component=False, fragments=True):
    """core of the constructive generator: returns (atoms [sym, charge, cap], bonds [i, j, order], free valences)"""
    frag_atoms, frag_bonds = draw(st.sampled_from(FRAGMENTS)) if fragments else ([], [])
    if len(frag_atoms) > max_atoms:
        frag_atoms, frag_bonds = [], []
    atoms = [list(a) for a in frag_atoms]  # [sym, charge, cap]
    bonds = [list(b) for b in frag_bonds]
    free = [a[2] for a in atoms]
    for i, j, o in bonds:
        free[i] -= o
        free[j] -= o
    # atoms of an unsaturated seed fragment: never ring-closure ends (no bridged/strained pseudo-aromatics)
    unsat = set(range(len(atoms))) if any(o > 1 for *_, o in bonds) else set()
    extra = draw(st.integers(0 if atoms else 1, max(1, max_atoms - len(atoms))))
    for _ in range(extra):
        sym, ch, cap, _w = PSEUDO[draw(st.sampled_from(_PSEUDO_POP))]
        cand = [k for k, f in enumerate(free) if f > 0]
        new_comp = not cand or (not single_component and draw(_rare(20)))
        if new_comp and single_component and atoms:
            break
        atoms.append([sym, ch, cap])
        free.append(cap)
        i = len(atoms) - 1
        if not new_comp:
            p = cand[draw(st.integers(0, len(cand) - 1))]
            omax = min(free[p], free[i], 3)
            o = draw(st.sampled_from([1, 1, 1, 1, 2, 2, 3][:4 + (omax > 1) * 2 + (omax > 2)]))
            bonds.append([p, i, o])
            free[p] -= o
            free[i] -= o
    # ring closures
    adj = {k: set() for k in range(len(atoms))}
    for i, j, _ in bonds:
        adj[i].add(j)
        adj[j].add(i)
    for _ in range(draw(st.integers(0, 3))):
        cand = [k for k, f in enumerate(free) if f > 0 and k not in unsat]
        if len(cand) < 2:
            break
        a = cand[draw(st.integers(0, len(cand) - 1))]
        dist = {a: 0}
        through = {a: 0}  # unsaturated seed atoms on the BFS path: only ortho-fusion (<= 2) is chemically sensible
        queue = [a]
        while queue:
            x = queue.pop(0)
            for y in adj[x]:
                if y not in dist:
                    dist[y] = dist[x] + 1
                    through[y] = through[x] + (y in unsat)
                    queue.append(y)
        tgt = [k for k in cand if 2 <= dist.get(k, 0) <= 7 and through[k] <= 2]
        if not tgt:
            continue
        b = tgt[draw(st.integers(0, len(tgt) - 1))]
        o = 2 if min(free[a], free[b]) > 1 and draw(_rare(6)) else 1
        bonds.append([a, b, o])
        adj[a].add(b)
        adj[b].add(a)
        free[a] -= o
        free[b] -= o
    return atoms, bonds, free


def _finish(draw, atoms, bonds, free, iso_rate=30, rad_rate=40, metal_rate=12):
    out_atoms = []
    for k, (sym, ch, cap) in enumerate(atoms):
        iso = draw(st.integers(0, 5)) if iso_rate and draw(_rare(iso_rate)) else None
        rad = False
        if rad_rate and free[k] > 0 and sym in ('C', 'N', 'O') and ch == 0 and draw(_rare(rad_rate)):
            rad = True
        out_atoms.append([sym, ch, iso, rad])
    if metal_rate and draw(_rare(metal_rate)):
        msym = draw(st.sampled_from(['Li', 'Na', 'K', 'Mg', 'Fe', 'Cu', 'Zn', 'Pd', 'Pt']))
        hetero = [k for k, a in enumerate(out_atoms) if a[0] in ('N', 'O', 'S', 'P')]
        out_atoms.append([msym, 0, None, False])
        m = len(out_atoms) - 1
        for _ in range(draw(st.integers(0, 2))):
            if hetero:
                h = hetero.pop(draw(st.integers(0, len(hetero) - 1)))
                bonds.append([h, m, 8])
    stereo = draw(st.lists(st.integers(0, 2), min_size=12, max_size=12))
    return {'k': 'graph', 'atoms': out_atoms, 'bonds': bonds, 'stereo': stereo}


@st.composite
def graph_specs(draw, max_atoms=14):
    atoms, bonds, free = _draw_graph(draw, max_atoms)
    return _finish(draw, atoms, bonds, free)


LINKERS = ['bond', 'O', 'S', 'N', 'C', 'CC', 'C=C', 'para', 'meta', '135', 'spiro-ring', 'N+', 'CX', 'CX']


@st.composite
def symmetric_specs(draw, unit_atoms=7):
    """a drawn unit duplicated 2-4 times around a linker: constitutionally symmetric molecules whose copies receive
    independent stereo labels (R/S, E/Z pairs) - the stratum that exercises canonical tie-breaking"""
    ua, ub, uf = _draw_graph(draw, unit_atoms, single_component=True, fragments=draw(st.booleans()))
    att = [k for k, f in enumerate(uf) if f > 0]
    if not att:
        return _finish(draw, ua, ub, uf)
    a0 = att[draw(st.integers(0, len(att) - 1))]
    link = draw(st.sampled_from(LINKERS))
    atoms, bonds, free = [], [], []
    ports = []

    def add(sym, ch, cap):
        atoms.append([sym, ch, cap])
        free.append(cap)
        return len(atoms) - 1

    def bond(i, j, o=1):
        bonds.append([i, j, o])
        free[i] -= o
        free[j] -= o
    if link == 'bond':
        k = 2
    elif link in ('O', 'S'):
        x = add(link, 0, 2)
        ports, k = [x, x], 2
    elif link == 'N':
        x = add('N', 0, 3)
        k = draw(st.integers(2, 3))
        ports = [x] * k
    elif link == 'N+':
        x = add('N', 1, 4)
        k = draw(st.integers(2, 4))
        ports = [x] * k
    elif link == 'C':
        x = add('C', 0, 4)
        k = draw(st.integers(2, 4))
        ports = [x] * k
    elif link == 'CX':  # carbon bearing one hetero substituent between two copies: pseudo-asymmetric centre candidate
        x = add('C', 0, 4)
        y = add(draw(st.sampled_from(['O', 'Cl', 'N', 'F'])), 0, 3)
        bond(x, y)
        ports, k = [x, x], 2
    elif link == 'CC':
        x, y = add('C', 0, 4), add('C', 0, 4)
        bond(x, y)
        ports, k = [x, y], 2
    elif link == 'C=C':
        x, y = add('C', 0, 4), add('C', 0, 4)
        bond(x, y, 2)
        k = draw(st.sampled_from([2, 4]))
        ports = [x, y] if k == 2 else [x, x, y, y]
    elif link in ('para', 'meta', '135'):
        ring = [add('C', 0, 4) for _ in range(6)]
        for i in range(6):
            bond(ring[i], ring[(i + 1) % 6], 2 if i % 2 == 0 else 1)
        ports = {'para': [ring[0], ring[3]], 'meta': [ring[0], ring[2]], '135': [ring[0], ring[2], ring[4]]}[link]
        k = len(ports)
    else:  # spiro-ring: units hang on a saturated ring at opposite positions
        n = draw(st.sampled_from([4, 6]))
        ring = [add('C', 0, 4) for _ in range(n)]
        for i in range(n):
            bond(ring[i], ring[(i + 1) % n])
        ports, k = [ring[0], ring[n // 2]], 2
    firsts = []
    for c in range(k):
        off = len(atoms)
        for sym, ch, cap in ua:
            add(sym, ch, cap)
        for i, j, o in ub:
            bond(off + i, off + j, o)
        firsts.append(off + a0)
    if link == 'bond':
        bond(firsts[0], firsts[1])
    else:
        for p, f in zip(ports, firsts):
            bond(p, f)
    return _finish(draw, atoms, bonds, free, iso_rate=0, rad_rate=0, metal_rate=0)


def mol_specs(max_atoms=14, corpus_w=5, curated_w=2, graph_w=5, literal_w=1, sym_w=3):
    parts = []
    parts += [st.builds(lambda i: {'k': 'corpus', 'i': i}, st.integers(0, len(corpus()) - 1))] * corpus_w
    if curated():
        parts += [st.builds(lambda i: {'k': 'smi', 's': curated()[i]}, st.integers(0, len(curated()) - 1))] * curated_w
    if test_literals():
        parts += [st.builds(lambda i: {'k': 'smi', 's': test_literals()[i]},
                            st.integers(0, len(test_literals()) - 1))] * literal_w
    parts += [graph_specs(max_atoms)] * graph_w
    parts += [symmetric_specs()] * sym_w
    return st.one_of(*parts)


# ---------------------------------------------------------------------------------------------------
# building

class Reject(Exception):
    """generator produced something outside the sound domain (counted, never a violation)"""


def spec_smiles(spec):
    if spec['k'] == 'corpus':
        return corpus()[spec['i']]
    if spec['k'] == 'smi':
        return spec['s']
    return None


def build_raw(spec):
    """molecule exactly as read / constructed (no normalisation)"""
    from chython import smiles, MoleculeContainer
    from chython.periodictable import Element
    s = spec_smiles(spec)
    if s is not None:
        m = smiles(s)
        if not isinstance(m, MoleculeContainer):
            raise Reject('not a molecule')
        return m
    m = MoleculeContainer()
    nums = []
    for sym, ch, iso, rad in spec['atoms']:
        cls = Element.from_symbol(sym)
        a = cls(charge=ch, is_radical=rad)
        if iso is not None:
            keys = sorted(a.isotopes_distribution)
            a = cls(keys[iso % len(keys)], charge=ch, is_radical=rad)
        nums.append(m.add_atom(a))
    for i, j, o in spec['bonds']:
        m.add_bond(nums[i], nums[j], o)
    return m


def _ct_clusters(m):
    """conjugated groups of stereogenic double bonds (ends bonded to each other): SMILES cannot express a partially
    labelled group because the single bond between two double bonds carries one mark for both"""
    keys = list(m.stereogenic_cis_trans)
    parent = {k: k for k in keys}

    def find(x):
        while parent[x] != x:
            x = parent[x]
        return x
    for i, a in enumerate(keys):
        for b in keys[i + 1:]:
            if any(y in m._bonds[x] for x in a for y in b):
                parent[find(a)] = find(b)
    out = {}
    for k in keys:
        out.setdefault(find(k), []).append(k)
    return list(out.values())


def decorate_stereo(m, choices):
    """set drawn labels on every centre chython reports as chiral, repeating while new centres appear.
    conjugated double-bond groups are labelled all-or-nothing (see _ct_clusters)"""
    choices = list(choices)

    def labelled(nk):
        i, j = m._stereo_cis_trans_centers[nk[0]]
        return m.bond(i, j).stereo is not None
    skip = set()
    for _ in range(4):
        progress = False
        for n in sorted(m.chiral_tetrahedrons):
            if not choices:
                break
            c = choices.pop(0)
            if c and n in m.chiral_tetrahedrons:
                m.add_atom_stereo(n, m.stereogenic_tetrahedrons[n], c == 1)
                progress = True
        for cluster in _ct_clusters(m):
            key = tuple(sorted(cluster))
            if key in skip:
                continue
            if not any(labelled(k) for k in cluster):
                if not choices or not choices.pop(0):
                    skip.add(key)
                    continue
            for n, k in sorted(cluster):
                # generator domain: cis/trans on C/N terminals that carry exactly one double bond (no hypervalent P/S ends)
                if any(m.atom(x).atomic_number not in (6, 7) or sum(b.order == 2 for b in m._bonds[x].values()) != 1
                       for x in (n, k)):
                    continue
                # ... and, for endocyclic double bonds, only macrocyclic ones whose ends belong to that single ring
                path = next(p for p in m.stereogenic_cumulenes if {p[0], p[-1]} == {n, k})
                if any(m._bonds[a][b].in_ring for a, b in zip(path, path[1:])) and \
                        any(len(m.atoms_rings.get(x, ())) > 1 or any(len(r) < 8 for r in m.atoms_rings.get(x, ()))
                            for x in (n, k)):
                    continue
                if (n, k) in m.chiral_cis_trans:
                    c = choices.pop(0) if choices else 1
                    env = m.stereogenic_cis_trans[(n, k)]
                    m.add_cis_trans_stereo(n, k, env[0], env[1], c != 2)
                    progress = True
        for n in sorted(m.chiral_allenes):
            if not choices:
                break
            c = choices.pop(0)
            if c and n in m.chiral_allenes:
                env = m.stereogenic_allenes[n]
                m.add_atom_stereo(n, (env[0], env[1]), c == 1)
                progress = True
        if not progress:
            break
    # a later label can make an earlier centre non-stereogenic (two substituents become identical); add_*_stereo does not
    # re-examine other centres, the documented clean-up is fix_stereo
    m.fix_stereo()


def normalise(m):
    """kekule(); thiele()  - the documented normal state.  Raises Reject if no Kekule structure exists"""
    from chython.exceptions import InvalidAromaticRing
    try:
        m.kekule()
    except InvalidAromaticRing:
        raise Reject('no kekule form')
    if m.check_valence():
        raise Reject('valence invalid')
    m.thiele()
    return m


def build(spec, normal=True):
    m = build_raw(spec)
    if not len(m):
        raise Reject('empty')
    if normal:
        normalise(m)
    if spec['k'] == 'graph':
        if not normal and m.check_valence():
            raise Reject('valence invalid')
        decorate_stereo(m, spec.get('stereo', ()))
    return m


def build_kekule(spec):
    from chython.exceptions import InvalidAromaticRing
    m = build(spec)
    try:
        m.kekule()
    except InvalidAromaticRing:
        raise Reject('thiele form has no kekule form (hypercondensed)')
    return m


# ---------------------------------------------------------------------------------------------------
# renumber / rebuild operator R (DESIGN 1.2)

def stereo_labels(m):
    """configuration read through the translate functions for the molecule's own reference environments"""
    th, ct, al = {}, {}, {}
    for n, env in m.stereogenic_tetrahedrons.items():
        if m.atom(n).stereo is not None:
            th[n] = (tuple(env), m._translate_tetrahedron_sign(n, env))
    for n, env in m.stereogenic_allenes.items():
        if m.atom(n).stereo is not None:
            al[n] = ((env[0], env[1]), m._translate_allene_sign(n, env[0], env[1]))
    for (n, k), env in m.stereogenic_cis_trans.items():
        i, j = m._stereo_cis_trans_centers[n]
        if m.bond(i, j).stereo is not None:
            ct[(n, k)] = ((env[0], env[1]), m._translate_cis_trans_sign(n, k, env[0], env[1]))
    return th, ct, al


def apply_labels(new, labels, mp):
    """write labels through the public setters with the retry loop the library's own readers use.
    returns number of labels that could not be transferred"""
    from chython.exceptions import NotChiral, IsChiral
    th, ct, al = labels
    todo = [('t', n, env, s) for n, (env, s) in th.items()] + [('a', n, env, s) for n, (env, s) in al.items()] + \
           [('c', nk, env, s) for nk, (env, s) in ct.items()]
    while todo:
        rest = []
        for kind, n, env, s in todo:
            try:
                if kind == 'c':
                    new.add_cis_trans_stereo(mp[n[0]], mp[n[1]], mp[env[0]], mp[env[1]], s)
                else:
                    new.add_atom_stereo(mp[n], tuple(mp[x] for x in env), s)
            except NotChiral:
                rest.append((kind, n, env, s))
            except IsChiral:
                pass
        if len(rest) == len(todo):
            return len(rest)
        todo = rest
    return 0


def rebuild(m, seed, max_number=4095, keep_numbers=False, with_xy=True, shuffle=True):
    """R: fresh container, drawn new numbers, drawn atom insertion order, drawn bond insertion order and orientation.
    `m` must be in Kekule form.  Returns (new molecule, mapping old->new, untransferred label count)"""
    from chython import MoleculeContainer
    rnd = _random.Random(seed)
    old = list(m)
    if keep_numbers:
        mp = {n: n for n in old}
    else:
        mp = dict(zip(old, rnd.sample(range(1, max_number + 1), len(old))))
    order = old[:]
    if shuffle:
        rnd.shuffle(order)
    new = MoleculeContainer()
    for n in order:
        a = m.atom(n)
        kw = dict(charge=a.charge, is_radical=a.is_radical)
        if with_xy:
            kw.update(x=a.x, y=a.y)
        new.add_atom(type(a)(a.isotope, **kw), mp[n])
    bl = [(n, k, b.order) for n, k, b in m.bonds()]
    if shuffle:
        rnd.shuffle(bl)
    for n, k, o in bl:
        if shuffle and rnd.random() < .5:
            n, k = k, n
        new.add_bond(mp[n], mp[k], o)
    left = apply_labels(new, stereo_labels(m), mp)
    new.name = m.name
    return new, mp, left


def remap_copy(m, seed, max_number=4095):
    rnd = _random.Random(seed)
    old = list(m)
    mp = dict(zip(old, rnd.sample(range(1, max_number + 1), len(old))))
    # two-step remap to avoid overlap of old and new numbers
    tmp = {n: 10000 + i for i, n in enumerate(old)}
    c = m.copy()
    c.remap(tmp)
    c.remap({tmp[n]: mp[n] for n in old})
    return c, mp


# ---------------------------------------------------------------------------------------------------
# atom-wise snapshots

def snapshot(m, hydrogens=True):
    """plain description read from public accessors: n -> (Z, isotope, charge, radical, H, ((nbr, order), ...))"""
    out = {}
    for n, a in m.atoms():
        out[n] = (a.atomic_number, a.isotope, a.charge, a.is_radical, a.implicit_hydrogens if hydrogens else None,
                  tuple(sorted((k, b.order) for k, b in m._bonds[n].items())))
    return out


def map_snapshot(snap, mp):
    return {mp[n]: (z, i, c, r, h, tuple(sorted((mp[k], o) for k, o in nb))) for n, (z, i, c, r, h, nb) in snap.items()}


def compare_stereo(a, b, mp):
    """labels of `a` read in a's reference environments must equal labels of `b` read in the mapped environments.
    returns list of differences"""
    diffs = []
    th, ct, al = stereo_labels(a)
    thb, ctb, alb = stereo_labels(b)
    if {mp[n] for n in th} != set(thb):
        diffs.append(('tetrahedral-set', sorted(mp[n] for n in th), sorted(thb)))
    else:
        for n, (env, s) in th.items():
            s2 = b._translate_tetrahedron_sign(mp[n], tuple(mp[x] for x in env))
            if s2 != s:
                diffs.append(('tetrahedral-sign', n, mp[n]))
    if {mp[n] for n in al} != set(alb):
        diffs.append(('allene-set', sorted(mp[n] for n in al), sorted(alb)))
    else:
        for n, (env, s) in al.items():
            if b._translate_allene_sign(mp[n], mp[env[0]], mp[env[1]]) != s:
                diffs.append(('allene-sign', n, mp[n]))
    cta = {frozenset((mp[n], mp[k])) for n, k in ct}
    ctbs = {frozenset(nk) for nk in ctb}
    if cta != ctbs:
        diffs.append(('cis-trans-set', sorted(map(sorted, cta)), sorted(map(sorted, ctbs))))
    else:
        for (n, k), (env, s) in ct.items():
            if b._translate_cis_trans_sign(mp[n], mp[k], mp[env[0]], mp[env[1]]) != s:
                diffs.append(('cis-trans-sign', (n, k), (mp[n], mp[k])))
    return diffs

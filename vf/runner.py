"""
/verif/run <ID> <quick|thorough> [--replay file]     (DESIGN 1.1)
exit 0 property held on everything explored; 1 violation (VIOLATION line printed); 2 harness problem / inconclusive
"""
import importlib
import json
import os
import sys
import time
import traceback


def main(argv):
    if not argv:
        print(__doc__)
        return 2
    prop = argv[0].upper()
    tier = os.environ.get('VERIF_TIER', 'quick')
    replay = None
    rest = argv[1:]
    while rest:
        a = rest.pop(0)
        if a in ('quick', 'thorough'):
            tier = a
        elif a == '--replay':
            replay = rest.pop(0)
        else:
            print(f'unknown argument {a}', file=sys.stderr)
            return 2
    try:
        seed = int(os.environ.get('VERIF_SEED') or 1)
    except ValueError:
        seed = 1
    t0 = time.time()
    from .boot import boot, HarnessError
    try:
        boot()
        mod = importlib.import_module(f'vf.checks.{prop.lower()}')
        from . import core
        if replay:
            data = json.load(open(replay))
            res = core.direct_run(prop, [data['case']], mod.check_case)
            merged = core.merge([res])
            for kid, n in merged['known_hits'].items():
                print(f'KNOWN-FINDING: property={prop} {kid}')
            if merged['violations']:
                v = merged['violations'][0]
                print(f'VIOLATION property={prop} replay={replay}')
                print(f"  clause={v['clause']} bucket={v['bucket']}\n  detail={v['detail'][:1500]}", file=sys.stderr)
                return 1
            print(f'replay of {replay}: property held')
            return 0
        shards = mod.shards(tier, seed)
        results = core.run_pool(mod.__name__, shards, tier, seed)
        merged = core.merge(results)
        if hasattr(mod, 'post'):
            mod.post(merged, tier)
        extra = mod.extra(merged, tier) if hasattr(mod, 'extra') else None
        code = core.finish(prop, tier, seed, merged, rule=mod.RULE, assumptions=mod.ASSUMPTIONS, t0=t0,
                           exhaustive=getattr(mod, 'EXHAUSTIVE', {}).get(tier), extra=extra)
        print(f'{prop} {tier} seed={seed}: evaluations={merged["evaluations"]} '
              f'distinct_nontrivial={len(merged["nontrivial"])} known={sum(merged["known_hits"].values())} '
              f'violations={len(merged["violations"])} wall={time.time() - t0:.1f}s')
        return code
    except HarnessError as e:
        print(f'HARNESS-ERROR {prop}: {e}', file=sys.stderr)
        return 2
    except Exception:
        print(f'HARNESS-ERROR {prop}: {traceback.format_exc()}', file=sys.stderr)
        return 2


if __name__ == '__main__':
    sys.exit(main(sys.argv[1:]))

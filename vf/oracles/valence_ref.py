"""
Reference interpreter of the element valence tables (DESIGN 2/C04): reads the raw `_common_valences` and
`_valences_exceptions` tuples and applies the documented semantics without touching `_compiled_valence_rules`,
`calc_implicit` or `check_implicit`.
"""
from collections import Counter

_Z = {}


def _z(symbol):
    if not _Z:
        from chython.periodictable import Element
        for cls in Element.__subclasses__():
            _Z[cls.__name__] = cls.atomic_number.fget(None)
    return _Z[symbol]


def implicit_h(atom, neighbours):
    """
    atom: chython Element (only its class tables, charge, radical are read)
    neighbours: list of (bond order, atomic number) for every non-coordinate bond (localised orders 1-3)
    returns hydrogen count or None when no valence state exists
    """
    if atom.atomic_number == 1:
        return 0
    s = sum(o for o, _ in neighbours)
    have = Counter(neighbours)
    charge, radical = atom.charge, atom.is_radical
    common = atom._common_valences
    if charge == 0 and not radical:
        v0 = common[0]
        if v0:
            if s <= v0:
                return v0 - s
            if s in common[1:]:
                return 0
        elif s in common:
            return 0
    for c, r, imp, env in atom._valences_exceptions:
        if c != charge or r != radical:
            continue
        explicit = sum(o for o, _ in env)
        if imp:
            if not explicit <= s <= explicit + imp:
                continue
            h = explicit + imp - s
        else:
            if s != explicit:
                continue
            h = 0
        need = Counter((o, _z(e)) for o, e in env)
        if all(have[k] >= v for k, v in need.items()):
            return h
    return None


def implicit_h_all(atom, neighbours):
    """every hydrogen count for which some rule matches (a reader may select a non-first state from a bracket atom)"""
    if atom.atomic_number == 1:
        return {0}
    out = set()
    s = sum(o for o, _ in neighbours)
    have = Counter(neighbours)
    charge, radical = atom.charge, atom.is_radical
    common = atom._common_valences
    if charge == 0 and not radical:
        v0 = common[0]
        if v0:
            if s <= v0:
                out.add(v0 - s)
            if s in common[1:]:
                out.add(0)
        elif s in common:
            out.add(0)
    for c, r, imp, env in atom._valences_exceptions:
        if c != charge or r != radical:
            continue
        explicit = sum(o for o, _ in env)
        if imp:
            if not explicit <= s <= explicit + imp:
                continue
            h = explicit + imp - s
        else:
            if s != explicit:
                continue
            h = 0
        need = Counter((o, _z(e)) for o, e in env)
        if all(have[k] >= v for k, v in need.items()):
            out.add(h)
    return out


def atom_neighbours(mol, n):
    return [(b.order, mol.atom(k).atomic_number) for k, b in mol._bonds[n].items() if b.order != 8]


def natural_mass(atom):
    """own arithmetic from the raw isotope tables"""
    if atom.isotope:
        return atom.isotopes_masses[atom.isotope]
    d, m = atom.isotopes_distribution, atom.isotopes_masses
    return sum(d[k] * m[k] for k in d)

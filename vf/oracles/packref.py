import zlib, struct, math
def f16(b0,b1):
    return struct.unpack('>e', bytes((b0,b1)))[0]
def decode(data):
    assert data[0] in (0,2), data[0]
    ver=data[0]
    na = data[1]<<4 | data[2]>>4
    nct = (data[2]&0xf)<<8 | data[3]
    p=4; atoms=[]; 
    for i in range(na):
        r=data[p:p+9]; p+=9
        num=r[0]<<4|r[1]>>4; nn=r[1]&0xf
        st=r[2]>>4
        iso=(r[2]&0xf)<<1|r[3]>>7
        z=r[3]&0x7f
        x=f16(r[4],r[5]); y=f16(r[6],r[7])
        h=r[8]>>5; ch=((r[8]>>1)&0xf)-4; rad=r[8]&1
        atoms.append(dict(n=num,nn=nn,th=st>>2,al=st&3,iso=iso,z=z,x=x,y=y,h=None if h==7 else h,ch=ch,rad=bool(rad)))
    tot=sum(a['nn'] for a in atoms); nb=tot//2
    conn=[]
    bits=int.from_bytes(data[p:p+3*nb],'big'); 
    for i in range(tot):
        conn.append((bits>>(12*(tot-1-i)))&0xfff)
    p+=3*nb
    if ver==2:
        ob=math.ceil(nb*3/8)
        obits=int.from_bytes(data[p:p+ob],'big')
        orders=[((obits>>(ob*8-3*(i+1)))&7)+1 for i in range(nb)]
    else:
        ob=math.ceil(nb/5)*2
        orders=[]
        for j in range(0,ob,2):
            v=int.from_bytes(data[p+j:p+j+2],'big')
            orders+= [((v>>(12-3*k))&7)+1 for k in range(5)]
        orders=orders[:nb]
    p+=ob
    ct=[]
    for i in range(nct):
        r=data[p:p+4]; p+=4
        ct.append((r[0]<<4|r[1]>>4,(r[1]&0xf)<<8|r[2],bool(r[3])))
    # adjacency in order
    adj={}; k=0; seen=set(); bonds={}
    it=iter(conn); oi=iter(orders)
    for a in atoms:
        adj[a['n']]=[next(it) for _ in range(a['nn'])]
    for a in atoms:
        n=a['n']
        for m in adj[n]:
            if m not in seen:
                bonds[(n,m)]=next(oi)
        seen.add(n)
    return dict(ver=ver,atoms=atoms,adj=adj,bonds=bonds,ct=ct,size=p)

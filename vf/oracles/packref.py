"""
Reference codec for the published pack layout (DESIGN 2/C10), written from the docstring of MoleculeContainer.pack:
decode(bytes) -> plain dict, encode(plain dict) -> bytes.  Independent of the .pyx sources.
"""
import math
import struct


def f16(b0, b1):
    return struct.unpack('>e', bytes((b0, b1)))[0]


def f16_candidates(x):
    """the two half-precision neighbours of x (round-to-nearest and truncation towards zero) as 2-byte big-endian strings"""
    if x == 0:
        return {b'\x00\x00'}
    near = struct.pack('>e', x)
    out = {near}
    v = struct.unpack('>e', near)[0]
    bits = struct.unpack('>H', near)[0]
    if abs(v) > abs(x):  # rounded away from zero: truncation is one step towards zero
        out.add(struct.pack('>H', bits - 1))
    return out


def decode(data):
    if data[0] not in (0, 2):
        raise ValueError('not a molecule pack')
    ver = data[0]
    na = data[1] << 4 | data[2] >> 4
    nct = (data[2] & 0xf) << 8 | data[3]
    p = 4
    atoms = []
    for _ in range(na):
        r = data[p:p + 9]
        p += 9
        st = r[2] >> 4
        h = r[8] >> 5
        atoms.append(dict(n=r[0] << 4 | r[1] >> 4, nn=r[1] & 0xf, th=st >> 2, al=st & 3,
                          iso=(r[2] & 0xf) << 1 | r[3] >> 7, z=r[3] & 0x7f, x=f16(r[4], r[5]), y=f16(r[6], r[7]),
                          xy_bytes=bytes(r[4:8]), h=None if h == 7 else h, ch=((r[8] >> 1) & 0xf) - 4, rad=bool(r[8] & 1)))
    tot = sum(a['nn'] for a in atoms)
    nb = tot // 2
    bits = int.from_bytes(data[p:p + 3 * nb], 'big')
    conn = [(bits >> (12 * (tot - 1 - i))) & 0xfff for i in range(tot)]
    p += 3 * nb
    if ver == 2:
        ob = math.ceil(nb * 3 / 8)
        obits = int.from_bytes(data[p:p + ob], 'big')
        orders = [((obits >> (ob * 8 - 3 * (i + 1))) & 7) + 1 for i in range(nb)]
        pad = obits & ((1 << (ob * 8 - 3 * nb)) - 1) if ob else 0
    else:
        ob = math.ceil(nb / 5) * 2
        orders = []
        for j in range(0, ob, 2):
            v = int.from_bytes(data[p + j:p + j + 2], 'big')
            orders += [((v >> (12 - 3 * k)) & 7) + 1 for k in range(5)]
        orders = orders[:nb]
        pad = 0
    p += ob
    ct = []
    for _ in range(nct):
        r = data[p:p + 4]
        p += 4
        ct.append((r[0] << 4 | r[1] >> 4, (r[1] & 0xf) << 8 | r[2], r[3]))
    adj, it = {}, iter(conn)
    for a in atoms:
        adj[a['n']] = [next(it) for _ in range(a['nn'])]
    bonds, seen, oi = {}, set(), iter(orders)
    for a in atoms:
        n = a['n']
        for m in adj[n]:
            if m not in seen:
                bonds[(n, m)] = next(oi)
        seen.add(n)
    return dict(ver=ver, atoms=atoms, adj=adj, bonds=bonds, ct=ct, size=p, order_padding=pad)


def encode(desc):
    """desc: dict(atoms=[dict(n, nbrs=[...], stereo=None|bool, iso_offset (0 = unspecified), z, xb (2 bytes), yb (2 bytes), h, ch, rad)],
                  orders={(n, m): order}, ct=[(n, m, sign)])  -> version 2 bytes"""
    atoms = desc['atoms']
    out = bytearray()
    na, nct = len(atoms), len(desc['ct'])
    out += bytes((2, na >> 4, (na << 4 | nct >> 8) & 0xff, nct & 0xff))
    for a in atoms:
        nn = len(a['nbrs'])
        if a['stereo'] is None:
            st = 0
        elif nn == 2:
            st = 0b0011 if a['stereo'] else 0b0010
        else:
            st = 0b1100 if a['stereo'] else 0b1000
        iso = a['iso_offset']
        h = 7 if a['h'] is None else a['h']
        out += bytes((a['n'] >> 4, (a['n'] << 4 | nn) & 0xff, (st << 4 | iso >> 1) & 0xff, ((iso << 7) | a['z']) & 0xff))
        out += a['xb'] + a['yb']
        out.append((h << 5 | (a['ch'] + 4) << 1 | int(a['rad'])) & 0xff)
    flat = [m for a in atoms for m in a['nbrs']]
    bits = 0
    for m in flat:
        bits = bits << 12 | m
    out += bits.to_bytes(len(flat) * 12 // 8, 'big')
    seen, orders = set(), []
    for a in atoms:
        for m in a['nbrs']:
            if m not in seen:
                orders.append(desc['orders'][(a['n'], m)] - 1)
        seen.add(a['n'])
    nb = len(orders)
    ob = math.ceil(nb * 3 / 8)
    v = 0
    for o in orders:
        v = v << 3 | o
    v <<= ob * 8 - 3 * nb
    out += v.to_bytes(ob, 'big')
    for n, m, s in desc['ct']:
        out += bytes((n >> 4, (n << 4 | m >> 8) & 0xff, m & 0xff, int(s)))
    return bytes(out)


def encode_v0(desc):
    """version 0 layout: identical except the order block (5 orders per 16 bit word, top bit zero)"""
    v2 = encode(desc)
    d = decode(v2)
    nb = len(d['bonds'])
    head = 4 + 9 * len(d['atoms']) + 3 * nb
    ob2 = math.ceil(nb * 3 / 8)
    orders = [o - 1 for o in d['bonds'].values()]
    block = bytearray()
    for i in range(0, nb, 5):
        chunk = orders[i:i + 5] + [0] * (5 - len(orders[i:i + 5]))
        w = 0
        for o in chunk:
            w = w << 3 | o
        block += w.to_bytes(2, 'big')
    return bytes([0]) + v2[1:head] + bytes(block) + v2[head + ob2:]

import itertools, collections
def refine(colors, adj):
    # colors: dict node->hashable; adj: node->{nbr: label}
    while True:
        sig={n:(repr(colors[n]),tuple(sorted((repr(colors[m]),l) for m,l in adj[n].items()))) for n in adj}
        ids={s:i for i,s in enumerate(sorted(set(sig.values())))}
        new={n:ids[sig[n]] for n in adj}
        if len(set(new.values()))==len(set(colors.values())): return new
        colors=new
def orbits(colors0, adj, limit=200000):
    """exact orbits via search for automorphisms mapping a->b for same-class pairs"""
    col=refine(colors0,adj)
    classes=collections.defaultdict(list)
    for n,c in col.items(): classes[c].append(n)
    parent={n:n for n in adj}
    def find(x):
        while parent[x]!=x: parent[x]=parent[parent[x]]; x=parent[x]
        return x
    nodes=list(adj)
    steps=[0]
    def auto_exists(a,b):
        # find automorphism with a->b using individualisation-refinement on product
        def rec(c1,c2):
            steps[0]+=1
            if steps[0]>limit: raise TimeoutError
            # c1,c2 colourings of same graph; need colour-preserving iso graph(c1)->graph(c2)
            cl1=collections.defaultdict(list); cl2=collections.defaultdict(list)
            for n,c in c1.items(): cl1[c].append(n)
            for n,c in c2.items(): cl2[c].append(n)
            if {k:len(v) for k,v in cl1.items()}!={k:len(v) for k,v in cl2.items()}: return False
            big=[k for k,v in cl1.items() if len(v)>1]
            if not big:
                mp={cl1[k][0]:cl2[k][0] for k in cl1}
                return all(mp[m] in adj[mp[n]] and adj[mp[n]][mp[m]]==l for n in adj for m,l in adj[n].items())
            k=min(big,key=lambda k:len(cl1[k]))
            x=cl1[k][0]
            for y in cl2[k]:
                d1=dict(c1); d1[x]=('i',c1[x]); d2=dict(c2); d2[y]=('i',c2[y])
                # joint refinement: refine disjoint union to keep colour ids comparable
                u_adj={('1',n):{('1',m):l for m,l in adj[n].items()} for n in adj}
                u_adj.update({('2',n):{('2',m):l for m,l in adj[n].items()} for n in adj})
                u_col={('1',n):d1[n] for n in adj}; u_col.update({('2',n):d2[n] for n in adj})
                r=refine(u_col,u_adj)
                if rec({n:r[('1',n)] for n in adj},{n:r[('2',n)] for n in adj}): return True
            return False
        c1=dict(col); c2=dict(col)
        c1[a]=('i',col[a]); c2[b]=('i',col[b])
        u_adj={('1',n):{('1',m):l for m,l in adj[n].items()} for n in adj}
        u_adj.update({('2',n):{('2',m):l for m,l in adj[n].items()} for n in adj})
        u_col={('1',n):c1[n] for n in adj}; u_col.update({('2',n):c2[n] for n in adj})
        r=refine(u_col,u_adj)
        return rec({n:r[('1',n)] for n in adj},{n:r[('2',n)] for n in adj})
    for c,ms in classes.items():
        for a,b in itertools.combinations(ms,2):
            if find(a)!=find(b) and auto_exists(a,b): parent[find(a)]=find(b)
    return {n:find(n) for n in adj}
def mol_graph(m, stereo=False):
    col={n:(a.atomic_number,a.isotope or 0,a.charge,a.is_radical,a.implicit_hydrogens) for n,a in m.atoms()}
    adj={n:{k:b.order for k,b in nb.items()} for n,nb in m._bonds.items()}
    return col,adj

def swap_auto_exists(colors0, adj, a, b, fixed, limit=200000):
    """is there an automorphism mapping a->b (and b->a not required) that fixes every node in `fixed` pointwise"""
    col=refine(colors0,adj)
    steps=[0]
    def joint(c1,c2):
        u_adj={('1',n):{('1',m):l for m,l in adj[n].items()} for n in adj}
        u_adj.update({('2',n):{('2',m):l for m,l in adj[n].items()} for n in adj})
        u_col={('1',n):c1[n] for n in adj}; u_col.update({('2',n):c2[n] for n in adj})
        r=refine(u_col,u_adj)
        return {n:r[('1',n)] for n in adj},{n:r[('2',n)] for n in adj}
    def rec(c1,c2):
        steps[0]+=1
        if steps[0]>limit: raise TimeoutError
        cl1=collections.defaultdict(list); cl2=collections.defaultdict(list)
        for n,c in c1.items(): cl1[c].append(n)
        for n,c in c2.items(): cl2[c].append(n)
        if {k:len(v) for k,v in cl1.items()}!={k:len(v) for k,v in cl2.items()}: return False
        big=[k for k,v in cl1.items() if len(v)>1]
        if not big:
            mp={cl1[k][0]:cl2[k][0] for k in cl1}
            return all(mp[m] in adj[mp[n]] and adj[mp[n]][mp[m]]==l for n in adj for m,l in adj[n].items())
        k=min(big,key=lambda k:len(cl1[k])); x=cl1[k][0]
        for y in cl2[k]:
            d1=dict(c1); d1[x]=('i',c1[x]); d2=dict(c2); d2[y]=('i',c2[y])
            if rec(*joint(d1,d2)): return True
        return False
    c1=dict(col); c2=dict(col)
    c1[a]=('s',col[a]); c2[b]=('s',col[b])
    for i,f in enumerate(fixed):
        c1[f]=('f',i); c2[f]=('f',i)
    return rec(*joint(c1,c2))

def local_swap_ok(colors0, adj):
    # neighbours that colour refinement (what a Morgan ranking can see) leaves tied; true orbit mates are a subset of these
    orb=refine(colors0,adj)
    bad=[]
    # atoms the refinement cannot tell apart although no automorphism maps one to the other (1,4-dicyclopropylcyclohexane:
    # ring CH / cyclopropyl CH): every later tie-break among them is a choice by numbering, wherever it happens
    true=orbits(colors0,adj)
    rep={}
    for n in adj:
        if rep.setdefault(orb[n],true[n])!=true[n]:
            bad.append(('refinement-tie',n,orb[n])); break
    for v in adj:
        nb=list(adj[v])
        for u,w in itertools.combinations(nb,2):
            if orb[u]==orb[w]:
                fixed=[v]+[x for x in nb if x not in (u,w)]
                if not swap_auto_exists(colors0,adj,u,w,fixed): bad.append((v,u,w))
    return bad


# ---------------------------------------------------------------------------------------------------
# C01 claimed-domain predicates (DESIGN 2/C01), all computed on the stereo-stripped constitution graph

def constitution(m):
    col = {n: (a.atomic_number, a.isotope or 0, a.charge, a.is_radical, a.implicit_hydrogens) for n, a in m.atoms()}
    adj = {n: {k: b.order for k, b in nb.items()} for n, nb in m._bonds.items()}
    return col, adj


def labelled_centres(m):
    """(kind, centre atoms, [substituent lists per end]) for every labelled stereo element"""
    out = []
    for n, env in m.stereogenic_tetrahedrons.items():
        if m.atom(n).stereo is not None:
            out.append(('t', n, [list(m._bonds[n])], m.atom(n).implicit_hydrogens or 0))
    for path, env in m.stereogenic_cumulenes.items():
        n, k = path[0], path[-1]
        if len(path) % 2:
            lab = m.atom(path[len(path) // 2]).stereo is not None
        else:
            i = len(path) // 2
            lab = m.bond(path[i - 1], path[i]).stereo is not None
        if lab:
            out.append(('c', (n, k), [[x for x in m._bonds[n] if x != path[1]], [x for x in m._bonds[k] if x != path[-2]]],
                        0))
    return out


def gap_a_ring(m, orb):
    """gap (a) of the ring type: two same-orbit substituents of a labelled centre are joined by a path that avoids the centre
    (1,4-disubstituted cyclohexane, spiro and bicyclic centres).  The acyclic type (two separate equivalent arms that differ
    only by their own labels) is the other case"""
    for kind, c, ends, h in labelled_centres(m):
        centre = {c} if kind == 't' else set(c)
        if kind == 'c':
            path = next((p for p in m.stereogenic_cumulenes if {p[0], p[-1]} == set(c)), ())
            centre |= set(path)
        for subs in ends:
            for i in range(len(subs)):
                for j in range(i + 1, len(subs)):
                    x, y = subs[i], subs[j]
                    if orb[x] != orb[y]:
                        continue
                    seen, stack = {x}, [x]
                    while stack:
                        v = stack.pop()
                        for w in m._bonds[v]:
                            if w == y:
                                return True
                            if w not in centre and w not in seen:
                                seen.add(w)
                                stack.append(w)
    return False


def gap_a(m, orb):
    """a labelled centre has two substituents in one constitutional orbit"""
    for kind, c, ends, h in labelled_centres(m):
        for subs in ends:
            o = [orb[x] for x in subs]
            if len(set(o)) < len(o):
                return True
    return False


def _ring_blocks(adj):
    """biconnected components (as edge sets) that contain a cycle"""
    import sys
    sys.setrecursionlimit(10000)
    idx, low, stack, blocks = {}, {}, [], []
    counter = [0]

    def dfs(v, parent):
        idx[v] = low[v] = counter[0]
        counter[0] += 1
        for w in adj[v]:
            if w == parent:
                continue
            if w not in idx:
                stack.append((v, w))
                dfs(w, v)
                low[v] = min(low[v], low[w])
                if low[w] >= idx[v]:
                    comp = []
                    while True:
                        e = stack.pop()
                        comp.append(e)
                        if e == (v, w):
                            break
                    if len(comp) > 1:
                        blocks.append(comp)
            elif idx[w] < idx[v]:
                stack.append((v, w))
                low[v] = min(low[v], idx[w])
    for v in adj:
        if v not in idx:
            dfs(v, None)
    return blocks


def gap_b(m, orb):
    """ring block with cyclomatic number >= 3 in which two atoms with >= 3 ring bonds inside the block share an orbit"""
    adj = {n: {k for k, b in nb.items() if b.order != 8} for n, nb in m._bonds.items()}
    for comp in _ring_blocks(adj):
        nodes = {x for e in comp for x in e}
        if len(comp) - len(nodes) + 1 < 3:
            continue
        deg = {n: 0 for n in nodes}
        for a, b in comp:
            deg[a] += 1
            deg[b] += 1
        hubs = [orb[n] for n, d in deg.items() if d >= 3]
        if len(set(hubs)) < len(hubs):
            return True
    return False


def gap_c(m):
    """local swap test fails somewhere (routes to the known canonicaliser defect F-C01)"""
    col, adj = constitution(m)
    return bool(local_swap_ok(col, adj))


def annulene_stereo(m, max_len=30):
    """a labelled double bond lies on a fully conjugated (alternating double/single) cycle of >= 8 atoms:
    routes to the known writer/reader defect for ring cis/trans marks (F-C01-3)"""
    # an aromatic bond may stand for either member of the alternation
    dbl = {n: [k for k, b in nb.items() if b.order in (2, 4)] for n, nb in m._bonds.items()}
    sgl = {n: [k for k, b in nb.items() if b.order in (1, 4)] for n, nb in m._bonds.items()}
    for i, j, b in m.bonds():
        if b.order != 2 or b.stereo is None:
            continue
        # path i=j-...: next must be single, then double, ... back to i through a single bond
        stack = [(j, (i, j), 1)]  # (current, path, next bond type: 1 single / 2 double)
        while stack:
            cur, path, t = stack.pop()
            if len(path) > max_len:
                continue
            for k in (sgl if t == 1 else dbl)[cur]:
                if k == i and t == 1 and len(path) >= 8:
                    return True
                if k in path:
                    continue
                stack.append((k, path + (k,), 3 - t))
    return False


def odd_label_orbit(m, orb):
    """>= 3 (odd number of) labelled stereo elements in one constitutional orbit: the canonicaliser only
    differentiates even groups (`if not len(group) % 2` in MoleculeStereo.__differentiation) - known defect F-C01-4"""
    from collections import Counter
    c = Counter()
    ring = set()
    for kind, centre, ends, h in labelled_centres(m):
        key = (kind, orb[centre]) if kind == 't' else (kind, frozenset((orb[centre[0]], orb[centre[1]])))
        c[key] += 1
        if kind == 't' and m.atom(centre).in_ring:
            ring.add(key)
    # odd groups are not differentiated at all; groups of four or more ring centres go through the ring fallback of
    # __differentiation, which ranks them by traversal order (3:1 splits, partially labelled companion orbits)
    return any(v >= 3 and (v % 2 or k in ring) for k, v in c.items())


def _cycle_bonds(m):
    """bonds lying on a cycle of the full graph (coordinate bonds included: the writer closes such cycles with digits too)"""
    from . import mcb
    adj = {n: set(nb) for n, nb in m._bonds.items()}
    _, bridges = mcb.blocks_and_bridges(adj)
    return {frozenset((i, j)) for i, j, _ in m.bonds()} - set(bridges)


def radialene_stereo(m):
    """a ring atom that ends a labelled double bond and whose two ring neighbours both end other labelled double bonds
    (three mutually cross-conjugated stereo double bonds around ring bonds, e.g. C/C=C1/CCC/C(=C\\C)/C1=C/C): routes to the
    known writer defect on shared single-bond marks (one-pass mark assignment in MoleculeSmiles.__ct_map)"""
    cyc = _cycle_bonds(m)
    ends = {}
    for i, j, b in m.bonds():
        if b.order == 2 and b.stereo is not None:
            ends.setdefault(i, set()).add(j)
            ends.setdefault(j, set()).add(i)
    for a, partners in ends.items():
        nb = [x for x, b in m._bonds[a].items() if b.order == 1 and x in ends and frozenset((a, x)) in cyc]
        if len(nb) >= 2:
            return True
    return False


def ring_diene_stereo(m):
    """a labelled double bond on a cycle, conjugated through a single bond of that cycle with another labelled double bond
    (C1CC/C=C/C=C/CCCCC1, C/C=C1\\C=C\\CCCCCCCC1): routes to the known writer defect for spellings that close the ring on the
    endocyclic double bond"""
    cyc = _cycle_bonds(m)
    ends, endo = {}, set()
    for i, j, b in m.bonds():
        if b.order == 2 and b.stereo is not None:
            ends[i] = j
            ends[j] = i
            if frozenset((i, j)) in cyc:
                endo |= {i, j}
    for i, j, b in m.bonds():
        if b.order == 1 and frozenset((i, j)) in cyc and i in ends and j in ends and ends[i] != j and (i in endo or j in endo):
            return True
    return False


def aromatic_p_ambiguity(m):
    """an aromatic ring system holds a neutral three-coordinate P/As (lone-pair donor or P(V)H for the aromatic-text reader) and
    another neutral two-coordinate aromatic N/P/As written without hydrogen count: the reader has to guess which of them is
    the pyrrole-type atom.  Routes to the known finding on that guess depending on atom order (c1cnp(C)c1 vs c1ccnp1C)"""
    arom = {n: [k for k, b in nb.items() if b.order == 4] for n, nb in m._bonds.items()}
    seen = set()
    for s in arom:
        if s in seen or not arom[s]:
            continue
        comp, stack = {s}, [s]
        while stack:
            for k in arom[stack.pop()]:
                if k not in comp:
                    comp.add(k)
                    stack.append(k)
        seen |= comp
        three = [n for n in comp if m.atom(n).atomic_number in (15, 33) and not m.atom(n).charge and len(m._bonds[n]) == 3]
        two = [n for n in comp if m.atom(n).atomic_number in (7, 15, 33) and not m.atom(n).charge and len(m._bonds[n]) == 2
               and not m.atom(n).implicit_hydrogens]
        if three and two:
            return True
    return False


def fused_cp_anion(m):
    """a ring carbanion or azolium nitrogen inside a five-membered ring whose fused ring system (rings sharing bonds) holds a
    second five-membered ring (azapentalenide, pyrazolo-pyrazolium, benzo-bis-pyrazolium type): routes to the known finding on
    standardize_charges() choosing a charge position without Kekule structure"""
    rings = [set(r) for r in m.sssr]
    for n, a in m.atoms():
        if (a.atomic_number == 6 and a.charge == -1) or (a.atomic_number == 7 and a.charge == 1):
            for i, r in enumerate(rings):
                if len(r) != 5 or n not in r:
                    continue
                if a.atomic_number == 6 and any(m.atom(x).atomic_number in (7, 8, 15, 16) for x in r):
                    return True  # carbanion on a hetero five-ring (pyrrolyl / furyl anion): not a cyclopentadienide at all
                seen, stack = {i}, [i]
                while stack:
                    k = stack.pop()
                    for j, o in enumerate(rings):
                        if j not in seen and len(o & rings[k]) >= 2:
                            if len(o) == 5:
                                return True
                            seen.add(j)
                            stack.append(j)
    return False

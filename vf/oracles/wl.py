import itertools, collections
def refine(colors, adj):
    # colors: dict node->hashable; adj: node->{nbr: label}
    while True:
        sig={n:(repr(colors[n]),tuple(sorted((repr(colors[m]),l) for m,l in adj[n].items()))) for n in adj}
        ids={s:i for i,s in enumerate(sorted(set(sig.values())))}
        new={n:ids[sig[n]] for n in adj}
        if len(set(new.values()))==len(set(colors.values())): return new
        colors=new
def orbits(colors0, adj, limit=200000):
    """exact orbits via search for automorphisms mapping a->b for same-class pairs"""
    col=refine(colors0,adj)
    classes=collections.defaultdict(list)
    for n,c in col.items(): classes[c].append(n)
    parent={n:n for n in adj}
    def find(x):
        while parent[x]!=x: parent[x]=parent[parent[x]]; x=parent[x]
        return x
    nodes=list(adj)
    steps=[0]
    def auto_exists(a,b):
        # find automorphism with a->b using individualisation-refinement on product
        def rec(c1,c2):
            steps[0]+=1
            if steps[0]>limit: raise TimeoutError
            # c1,c2 colourings of same graph; need colour-preserving iso graph(c1)->graph(c2)
            cl1=collections.defaultdict(list); cl2=collections.defaultdict(list)
            for n,c in c1.items(): cl1[c].append(n)
            for n,c in c2.items(): cl2[c].append(n)
            if {k:len(v) for k,v in cl1.items()}!={k:len(v) for k,v in cl2.items()}: return False
            big=[k for k,v in cl1.items() if len(v)>1]
            if not big:
                mp={cl1[k][0]:cl2[k][0] for k in cl1}
                return all(mp[m] in adj[mp[n]] and adj[mp[n]][mp[m]]==l for n in adj for m,l in adj[n].items())
            k=min(big,key=lambda k:len(cl1[k]))
            x=cl1[k][0]
            for y in cl2[k]:
                d1=dict(c1); d1[x]=('i',c1[x]); d2=dict(c2); d2[y]=('i',c2[y])
                # joint refinement: refine disjoint union to keep colour ids comparable
                u_adj={('1',n):{('1',m):l for m,l in adj[n].items()} for n in adj}
                u_adj.update({('2',n):{('2',m):l for m,l in adj[n].items()} for n in adj})
                u_col={('1',n):d1[n] for n in adj}; u_col.update({('2',n):d2[n] for n in adj})
                r=refine(u_col,u_adj)
                if rec({n:r[('1',n)] for n in adj},{n:r[('2',n)] for n in adj}): return True
            return False
        c1=dict(col); c2=dict(col)
        c1[a]=('i',col[a]); c2[b]=('i',col[b])
        u_adj={('1',n):{('1',m):l for m,l in adj[n].items()} for n in adj}
        u_adj.update({('2',n):{('2',m):l for m,l in adj[n].items()} for n in adj})
        u_col={('1',n):c1[n] for n in adj}; u_col.update({('2',n):c2[n] for n in adj})
        r=refine(u_col,u_adj)
        return rec({n:r[('1',n)] for n in adj},{n:r[('2',n)] for n in adj})
    for c,ms in classes.items():
        for a,b in itertools.combinations(ms,2):
            if find(a)!=find(b) and auto_exists(a,b): parent[find(a)]=find(b)
    return {n:find(n) for n in adj}
def mol_graph(m, stereo=False):
    col={n:(a.atomic_number,a.isotope or 0,a.charge,a.is_radical,a.implicit_hydrogens) for n,a in m.atoms()}
    adj={n:{k:b.order for k,b in nb.items()} for n,nb in m._bonds.items()}
    return col,adj

def swap_auto_exists(colors0, adj, a, b, fixed, limit=200000):
    """is there an automorphism mapping a->b (and b->a not required) that fixes every node in `fixed` pointwise"""
    col=refine(colors0,adj)
    steps=[0]
    def joint(c1,c2):
        u_adj={('1',n):{('1',m):l for m,l in adj[n].items()} for n in adj}
        u_adj.update({('2',n):{('2',m):l for m,l in adj[n].items()} for n in adj})
        u_col={('1',n):c1[n] for n in adj}; u_col.update({('2',n):c2[n] for n in adj})
        r=refine(u_col,u_adj)
        return {n:r[('1',n)] for n in adj},{n:r[('2',n)] for n in adj}
    def rec(c1,c2):
        steps[0]+=1
        if steps[0]>limit: raise TimeoutError
        cl1=collections.defaultdict(list); cl2=collections.defaultdict(list)
        for n,c in c1.items(): cl1[c].append(n)
        for n,c in c2.items(): cl2[c].append(n)
        if {k:len(v) for k,v in cl1.items()}!={k:len(v) for k,v in cl2.items()}: return False
        big=[k for k,v in cl1.items() if len(v)>1]
        if not big:
            mp={cl1[k][0]:cl2[k][0] for k in cl1}
            return all(mp[m] in adj[mp[n]] and adj[mp[n]][mp[m]]==l for n in adj for m,l in adj[n].items())
        k=min(big,key=lambda k:len(cl1[k])); x=cl1[k][0]
        for y in cl2[k]:
            d1=dict(c1); d1[x]=('i',c1[x]); d2=dict(c2); d2[y]=('i',c2[y])
            if rec(*joint(d1,d2)): return True
        return False
    c1=dict(col); c2=dict(col)
    c1[a]=('s',col[a]); c2[b]=('s',col[b])
    for i,f in enumerate(fixed):
        c1[f]=('f',i); c2[f]=('f',i)
    return rec(*joint(c1,c2))

def local_swap_ok(colors0, adj):
    orb=orbits(colors0,adj)
    bad=[]
    for v in adj:
        nb=list(adj[v])
        for u,w in itertools.combinations(nb,2):
            if orb[u]==orb[w]:
                fixed=[v]+[x for x in nb if x not in (u,w)]
                if not swap_auto_exists(colors0,adj,u,w,fixed): bad.append((v,u,w))
    return bad

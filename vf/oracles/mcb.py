"""
Independent ring oracle (DESIGN 1.3): connected components, bridges, biconnected blocks, simple-cycle enumeration,
GF(2) minimum cycle basis size vector, relevant cycles, uniqueness of the minimum cycle basis.
Nothing here touches chython.  Graphs are dict node -> set(nodes).
"""
import sys

sys.setrecursionlimit(100000)


def components(adj):
    seen, out = set(), []
    for s in adj:
        if s in seen:
            continue
        comp, stack = {s}, [s]
        while stack:
            v = stack.pop()
            for w in adj[v]:
                if w not in comp:
                    comp.add(w)
                    stack.append(w)
        seen |= comp
        out.append(comp)
    return out


def cyclomatic(adj):
    e = sum(len(v) for v in adj.values()) // 2
    return e - len(adj) + len(components(adj))


def blocks_and_bridges(adj):
    """returns (list of blocks as edge lists with >1 edge, set of bridge edges as frozensets)"""
    idx, low, stack, blocks, bridges = {}, {}, [], [], set()
    counter = [0]

    def dfs(root):
        # iterative DFS to survive macrocycles
        it = {root: iter(adj[root])}
        parent = {root: None}
        idx[root] = low[root] = counter[0]
        counter[0] += 1
        path = [root]
        while path:
            v = path[-1]
            try:
                w = next(it[v])
            except StopIteration:
                path.pop()
                if path:
                    p = path[-1]
                    low[p] = min(low[p], low[v])
                    if low[v] >= idx[p]:
                        comp = []
                        while True:
                            e = stack.pop()
                            comp.append(e)
                            if e == (p, v):
                                break
                        if len(comp) > 1:
                            blocks.append(comp)
                        else:
                            bridges.add(frozenset(comp[0]))
                continue
            if w == parent[v]:
                continue
            if w not in idx:
                parent[w] = v
                idx[w] = low[w] = counter[0]
                counter[0] += 1
                stack.append((v, w))
                it[w] = iter(adj[w])
                path.append(w)
            elif idx[w] < idx[v]:
                stack.append((v, w))
                low[v] = min(low[v], idx[w])
    for v in adj:
        if v not in idx:
            dfs(v)
    return blocks, bridges


def _block_adj(block):
    a = {}
    for u, v in block:
        a.setdefault(u, set()).add(v)
        a.setdefault(v, set()).add(u)
    return a


def simple_cycles(adj, max_len, limit=200000):
    """all simple cycles with <= max_len atoms as tuples of nodes (canonical rotation); raises OverflowError beyond limit"""
    out = set()
    nodes = sorted(adj)
    rank = {n: i for i, n in enumerate(nodes)}
    for s in nodes:
        stack = [(s, (s,))]
        while stack:
            v, path = stack.pop()
            for w in adj[v]:
                if w == s and len(path) > 2:
                    if rank[path[1]] < rank[path[-1]]:  # one orientation only
                        out.add(path)
                        if len(out) > limit:
                            raise OverflowError('too many cycles')
                elif rank[w] > rank[s] and w not in path and len(path) < max_len:
                    stack.append((w, path + (w,)))
    return out


def _edge_vec(cycle, eidx):
    v = 0
    for i in range(len(cycle)):
        a, b = cycle[i], cycle[(i + 1) % len(cycle)]
        v |= 1 << eidx[frozenset((a, b))]
    return v


class _GF2:
    def __init__(self):
        self.piv = {}  # pivot bit -> vector

    def reduce(self, v):
        while v:
            p = v.bit_length() - 1
            b = self.piv.get(p)
            if b is None:
                return v
            v ^= b
        return 0

    def add(self, v):
        v = self.reduce(v)
        if v:
            self.piv[v.bit_length() - 1] = v
            return True
        return False

    def copy(self):
        g = _GF2()
        g.piv = dict(self.piv)
        return g


def horton_sizes(adj):
    """sizes of a minimum cycle basis via Horton candidates (all roots x all edges, BFS trees), greedy GF(2)"""
    k = cyclomatic(adj)
    if not k:
        return []
    edges = sorted({frozenset((u, v)) for u in adj for v in adj[u]}, key=sorted)
    eidx = {e: i for i, e in enumerate(edges)}
    cand = {}
    for r in adj:
        par, dist, order = {r: None}, {r: 0}, [r]
        for v in order:
            for w in adj[v]:
                if w not in dist:
                    dist[w] = dist[v] + 1
                    par[w] = v
                    order.append(w)
        for e in edges:
            u, v = tuple(e)
            if u not in dist or v not in dist or par.get(u) == v or par.get(v) == u:
                continue
            pu, x = [], u
            while x is not None:
                pu.append(x)
                x = par[x]
            pv, x = [], v
            while x is not None:
                pv.append(x)
                x = par[x]
            if set(pu) & set(pv) != {r}:
                continue
            cyc = tuple(pu[::-1] + pv[:-1])
            vec = _edge_vec(cyc, eidx)
            cand.setdefault(vec, len(cyc))
    g = _GF2()
    sizes = []
    for vec, ln in sorted(cand.items(), key=lambda x: x[1]):
        if g.add(vec):
            sizes.append(ln)
            if len(sizes) == k:
                break
    return sorted(sizes)


def analyse(adj, cycle_limit=200000):
    """
    returns dict(k, sizes (sorted MCB size vector), relevant (list of cycles, tuples), unique (bool),
                 ring_atoms, ring_bonds (frozensets), bridges)
    exact for every block whose cycle enumeration stays below cycle_limit; raises OverflowError otherwise.
    """
    blocks, bridges = blocks_and_bridges(adj)
    sizes, relevant = [], []
    ring_atoms, ring_bonds = set(), set()
    unique = True
    for block in blocks:
        badj = _block_adj(block)
        ring_atoms |= set(badj)
        ring_bonds |= {frozenset(e) for e in block}
        kb = len(block) - len(badj) + 1
        hs = horton_sizes(badj)
        lmax = hs[-1]
        cycles = sorted(simple_cycles(badj, lmax, cycle_limit), key=len)
        edges = sorted({frozenset(e) for e in block}, key=sorted)
        eidx = {e: i for i, e in enumerate(edges)}
        shorter = _GF2()  # span of all cycles strictly shorter than current length
        greedy = _GF2()
        bsizes, brel = [], []
        i = 0
        while i < len(cycles):
            ln = len(cycles[i])
            j = i
            group = []
            while j < len(cycles) and len(cycles[j]) == ln:
                group.append((cycles[j], _edge_vec(cycles[j], eidx)))
                j += 1
            for cyc, vec in group:
                if shorter.reduce(vec):
                    brel.append(cyc)
                if len(bsizes) < kb and greedy.add(vec):
                    bsizes.append(ln)
            for cyc, vec in group:
                shorter.add(vec)
            i = j
        if len(bsizes) != kb:
            raise AssertionError('cycle enumeration did not span the cycle space')
        sizes += bsizes
        relevant += brel
        if len(brel) != kb:
            unique = False
    return dict(k=len(sizes), sizes=sorted(sizes), relevant=relevant, unique=unique, ring_atoms=ring_atoms,
                ring_bonds=ring_bonds, bridges=bridges)


def mol_adj(m, skip_special=True):
    return {n: {k for k, b in nb.items() if not (skip_special and b.order == 8)} for n, nb in m._bonds.items()}

"""
Independent isomorphism helpers (DESIGN 1.3): permutation parity, brute-force automorphism enumeration,
brute-force canonical keys of small labelled graphs, stereo signatures under automorphisms,
exhaustive (sub)graph embedding enumeration.  No chython algorithm is used here (only plain accessors by callers).
"""
import itertools


def perm_parity(a, b):
    """parity (0 even / 1 odd) of the permutation taking sequence a to sequence b (same elements)"""
    pos = {x: i for i, x in enumerate(a)}
    p = [pos[x] for x in b]
    seen = [False] * len(p)
    par = 0
    for i in range(len(p)):
        if not seen[i]:
            j, ln = i, 0
            while not seen[j]:
                seen[j] = True
                j = p[j]
                ln += 1
            par ^= (ln - 1) & 1
    return par


def refine(colors, adj):
    while True:
        sig = {n: (colors[n], tuple(sorted((colors[m], l) for m, l in adj[n].items()))) for n in adj}
        ids = {s: i for i, s in enumerate(sorted(set(sig.values()), key=repr))}
        new = {n: ids[sig[n]] for n in adj}
        if len(set(new.values())) == len(set(colors.values())):
            return new
        colors = new


def automorphisms(colors, adj, limit=5000):
    """all colour and edge-label preserving automorphisms (list of dicts); raises OverflowError beyond limit"""
    col = refine({n: repr(c) for n, c in colors.items()}, adj)
    nodes = sorted(adj, key=lambda n: (sum(1 for x in col.values() if x == col[n]), col[n], n))
    out = []
    mp, used = {}, set()

    def rec(i):
        if i == len(nodes):
            out.append(dict(mp))
            if len(out) > limit:
                raise OverflowError('too many automorphisms')
            return
        n = nodes[i]
        for c in adj:
            if c in used or col[c] != col[n]:
                continue
            ok = True
            for k, l in adj[n].items():
                if k in mp:
                    if adj[c].get(mp[k]) != l:
                        ok = False
                        break
            if ok:
                # non-edges must stay non-edges
                for k in mp:
                    if k not in adj[n] and mp[k] in adj[c]:
                        ok = False
                        break
            if ok:
                mp[n] = c
                used.add(c)
                rec(i + 1)
                del mp[n]
                used.discard(c)
    rec(0)
    return out


def canon_key(labels, edges):
    """brute-force canonical key of a small labelled graph: labels list (index = node), edges {(i, j): label} i<j"""
    n = len(labels)
    best = None
    # only permutations that sort labels (prune): group nodes by label
    order = sorted(range(n), key=lambda i: repr(labels[i]))
    groups = [list(g) for _, g in itertools.groupby(order, key=lambda i: repr(labels[i]))]
    for parts in itertools.product(*[itertools.permutations(g) for g in groups]):
        perm = [x for p in parts for x in p]  # new position -> old node
        inv = {old: new for new, old in enumerate(perm)}
        e = tuple(sorted((min(inv[i], inv[j]), max(inv[i], inv[j]), l) for (i, j), l in edges.items()))
        if best is None or e < best:
            best = e
    return (tuple(repr(labels[i]) for i in order), best)


# ---------------------------------------------------------------------------------------------------
# stereo signatures (labels independent of any reference environment)

H = 'H'  # virtual implicit hydrogen / lone position, sorts after every atom number


def _key(x):
    return (1, 0) if x == H else (0, x)


def _image_labels(m, sigma):
    """labels of m transported by automorphism sigma, re-normalised to number-sorted environments"""
    out = {}
    for n, env in m.stereogenic_tetrahedrons.items():
        if m.atom(n).stereo is None:
            continue
        s = m._translate_tetrahedron_sign(n, env)
        full = list(m._bonds[n])
        env4 = [sigma[x] for x in list(env) + [x for x in full if x not in env]]
        if len(env4) == 3:
            env4.append(H)
        out[('t', sigma[n])] = bool(s) ^ bool(perm_parity(env4, sorted(env4, key=_key)))
    for path, env in m.stereogenic_cumulenes.items():
        n, k = path[0], path[-1]
        n1, m1, n2, m2 = env
        if len(path) % 2:
            c = path[len(path) // 2]
            if m.atom(c).stereo is None:
                continue
            s = m._translate_allene_sign(c, n1, m1)
        else:
            i = len(path) // 2
            if m.bond(path[i - 1], path[i]).stereo is None:
                continue
            s = m._translate_cis_trans_sign(n, k, n1, m1)
        sn = [sigma[x] for x in m._bonds[n] if x != path[1] and m._bonds[n][x].order != 8]
        sk = [sigma[x] for x in m._bonds[k] if x != path[-2] and m._bonds[k][x].order != 8]
        if len(sn) == 1:
            sn.append(H)
        if len(sk) == 1:
            sk.append(H)
        flip = (sigma[n1] != min(sn, key=_key)) ^ (sigma[m1] != min(sk, key=_key))
        if len(path) % 2:
            # allene: exchanging the two ends is a rotation (even), sign unchanged
            out[('a', sigma[path[len(path) // 2]])] = bool(s) ^ flip
        else:
            out[('c', frozenset((sigma[n], sigma[k])))] = bool(s) ^ flip
    return out


def stereo_signature(m, autos):
    """canonical representative of the labelling of m under the automorphism group `autos` of its constitution"""
    best = None
    for sigma in autos:
        lab = tuple(sorted(((k[0], tuple(sorted(k[1])) if isinstance(k[1], frozenset) else (k[1],)), v)
                           for k, v in _image_labels(m, sigma).items()))
        if best is None or lab < best:
            best = lab
    return best


# ---------------------------------------------------------------------------------------------------
# exhaustive embedding enumeration (C07)

def embeddings(p_nodes, p_adj, t_nodes, t_adj, atom_ok, bond_ok, limit=200000):
    """all injective maps pattern->target with atom_ok(pn, tn) for every node and bond_ok(pn, pk, tn, tk) for every
    pattern bond (target bond must exist).  Plain backtracking, no heuristics beyond connectivity order."""
    order = []
    seen = set()
    for s in p_nodes:
        if s in seen:
            continue
        queue = [s]
        seen.add(s)
        while queue:
            v = queue.pop(0)
            order.append(v)
            for w in p_adj[v]:
                if w not in seen:
                    seen.add(w)
                    queue.append(w)
    out = []
    mp, used = {}, set()

    def rec(i):
        if i == len(order):
            out.append(dict(mp))
            if len(out) > limit:
                raise OverflowError('too many embeddings')
            return
        pn = order[i]
        mapped_nb = [k for k in p_adj[pn] if k in mp]
        if mapped_nb:
            cands = set(t_adj[mp[mapped_nb[0]]])
        else:
            cands = t_nodes
        for tn in cands:
            if tn in used or not atom_ok(pn, tn):
                continue
            if all(tn in t_adj[mp[k]] and bond_ok(pn, k, tn, mp[k]) for k in mapped_nb):
                mp[pn] = tn
                used.add(tn)
                rec(i + 1)
                del mp[pn]
                used.discard(tn)
    rec(0)
    return out

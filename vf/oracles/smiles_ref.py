"""
Reference SMILES reader and an independent random SMILES writer (DESIGN 1.3).

* write_random(mol, seed, style): spells a chython molecule (any state) as SMILES by a random DFS, computing chirality
  marks with permutation parity and '/' '\\' marks by 2-colouring, using only plain accessors and the stored
  signs read through _translate_*_sign for the library's own reference environments.  Returns (text, atom order).
* parse(text): recursive-descent reader of the documented subset -> plain graph; raises RefInvalid with
  kind 'hard' (outside any SMILES language) or 'grey' (accept/reject not asserted).
"""
import random as _random
import re

from .iso import perm_parity

ORGANIC = {'B', 'C', 'N', 'O', 'P', 'S', 'F', 'Cl', 'Br', 'I'}
AROMATIC_OK = {'B', 'C', 'N', 'O', 'P', 'S', 'Se', 'As', 'Te'}
ORDER_SYM = {1: '-', 2: '=', 3: '#', 4: ':', 8: '~'}
CHARGE = {0: ''}
for _c in range(1, 5):
    CHARGE[_c] = '+' if _c == 1 else f'+{_c}'
    CHARGE[-_c] = '-' if _c == 1 else f'-{_c}'
H = 'H'


class RefInvalid(Exception):
    def __init__(self, kind, msg):
        super().__init__(msg)
        self.kind = kind


# ---------------------------------------------------------------------------------------------------
# writer

def _closure(c):
    return str(c) if c < 10 else f'%{c}'


def write_random(m, seed, style=None):
    """
    style flags (dict): bracket_all (every atom as bracket atom with explicit H count), explicit_single ('-' written),
    charge_style (0: +2, 1: ++), big_closures (start numbering at 10), mapping (True: write :n for every atom; dict atom -> map: write those), aromatic (lower-case atoms
    for order-4 bonded atoms; requires thiele form and writes no H for organic aromatic atoms).
    Returns (text, order) or None when the labels cannot be expressed (odd conjugated cycle).
    """
    rnd = _random.Random(seed)
    st = dict(bracket_all=rnd.random() < .3, explicit_single=rnd.random() < .15, charge_style=rnd.randrange(2),
              big_closures=rnd.random() < .2, mapping=False, aromatic=True, marks_on_closure=rnd.randrange(3))
    if style:
        st.update(style)
    atoms = m._atoms
    bonds = m._bonds
    if not atoms:
        return None

    # --- cis/trans marks: 2-colouring of (terminal -> substituent) half-bonds -------------------------
    # N[(a, x)] in {True ('/'), False ('\\')} is the mark of bond a-x as if written "a <mark> x".
    # cis(x, y) <=> N[(a, x)] == N[(b, y)]   (see DESIGN: F/C=C/F is trans); N[(x, a)] == not N[(a, x)]
    need = {}  # (a, x) -> value
    cons = []  # (key1, key2, equal?)
    for path, env in m.stereogenic_cumulenes.items():
        if len(path) % 2:
            continue
        i = len(path) // 2
        if bonds[path[i - 1]][path[i]].stereo is None:
            continue
        a, b = path[0], path[-1]
        x, y = env[0], env[1]
        cis = m._translate_cis_trans_sign(a, b, x, y)
        cons.append(((a, x), (b, y), bool(cis)))
        # second substituents (if explicit atoms) get the opposite mark when written: add consistency constraints
        for t, first, second in ((a, env[0], env[2]), (b, env[1], env[3])):
            if second is not None:
                cons.append(((t, first), (t, second), False))
    val = {}
    if cons:
        graph = {}
        for k1, k2, eq in cons:
            graph.setdefault(k1, []).append((k2, eq))
            graph.setdefault(k2, []).append((k1, eq))
        # the same physical bond seen from both sides
        for (a, x) in list(graph):
            if (x, a) in graph:
                graph[(a, x)].append(((x, a), False))
                graph[(x, a)].append(((a, x), False))
        for start in graph:
            if start in val:
                continue
            val[start] = rnd.random() < .5
            stack = [start]
            while stack:
                k = stack.pop()
                for k2, eq in graph[k]:
                    v = val[k] if eq else not val[k]
                    if k2 not in val:
                        val[k2] = v
                        stack.append(k2)
                    elif val[k2] != v:
                        return None  # over-determined (odd conjugated cycle)
    # write the mark only for one substituent per terminal unless both are forced by other double bonds;
    # optional second marks are dropped at random (both spellings are valid SMILES)
    mark = {}
    for (a, x), v in val.items():
        mark[(a, x)] = v
        mark[(x, a)] = not v
    primary = set()
    for k1, k2, eq in cons:
        if eq is not False or k1[0] != k2[0]:
            primary.add(frozenset(k1))
            primary.add(frozenset(k2))
    for k1, k2, eq in cons:
        if k1[0] == k2[0] and rnd.random() < .5 and frozenset(k2) not in primary:
            mark.pop(k2, None)
            mark.pop((k2[1], k2[0]), None)

    # --- DFS ------------------------------------------------------------------------------------------
    todo = list(atoms)
    rnd.shuffle(todo)
    if st.get('start'):
        # 'centres': labelled centres are tried first as component starts; 'centres-late': a labelled centre starts a later component
        lab = [n for n in todo if atoms[n].stereo is not None]
        if lab and st['start'] == 'centres':
            todo = lab + [n for n in todo if n not in lab]
        elif lab and st['start'] == 'centres-late':
            comp, stack = {lab[0]}, [lab[0]]
            while stack:
                for k in bonds[stack.pop()]:
                    if k not in comp:
                        comp.add(k)
                        stack.append(k)
            other = [n for n in todo if n not in comp]
            if other:
                todo = [other[0], lab[0]] + [n for n in todo if n != other[0] and n != lab[0]]
    visited = {}
    order = []
    out = []
    aromatic_atoms = {n for n, nb in bonds.items() if any(b.order == 4 for b in nb.values())} if st['aromatic'] else set()
    if aromatic_atoms and any(atoms[n].atomic_symbol not in AROMATIC_OK for n in aromatic_atoms):
        return None

    def bond_text(a, b, at_closure=False):
        o = bonds[a][b].order
        if (a, b) in mark and o == 1:
            return '/' if mark[(a, b)] else '\\'
        if o == 1:
            if a in aromatic_atoms and b in aromatic_atoms:
                return '-'
            return '-' if st['explicit_single'] else ''
        if o == 4:
            return '' if (a in aromatic_atoms and b in aromatic_atoms) else ':'
        return ORDER_SYM[o]

    def atom_text(n, nbr_order):
        a = atoms[n]
        sym = a.atomic_symbol
        h = a.implicit_hydrogens
        chir = ''
        if a.stereo is not None:
            if n in m.stereogenic_tetrahedrons:
                env = m.stereogenic_tetrahedrons[n]
                s = m._translate_tetrahedron_sign(n, env)
                ref = list(env) + [x for x in bonds[n] if x not in env]
                if len(ref) == 3:
                    ref.append(H)
                written = list(nbr_order)
                if len(written) == 3:
                    # implicit hydrogen: immediately after the preceding atom, or first if there is none
                    pos = 1 if (visited[n] is not None) else 0
                    written.insert(pos, H)
                if sorted(map(str, ref)) != sorted(map(str, written)):
                    raise RefInvalid('harness', f'neighbour bookkeeping broken at {n}: {ref} vs {written}')
                if perm_parity(ref, written):
                    s = not s
                chir = '@' if s else '@@'
            elif n in m.stereogenic_allenes:
                env = m.stereogenic_allenes[n]
                t1, t2 = m._stereo_allenes_terminals[n]
                s = m._translate_allene_sign(n, env[0], env[1])
                # SMILES: looking from the first-written end.  written substituent order at each end
                w1 = [x for x in written_nbrs[t1] if x in (env[0], env[2])]
                w2 = [x for x in written_nbrs[t2] if x in (env[1], env[3])]
                # chython reads the mark for (first written substituent of t1, first written of t2) regardless of
                # which end comes first; the reference reader of this module does the same (documented convention)
                f1 = w1[0]
                f2 = w2[0]
                if f1 != env[0]:
                    s = not s
                if f2 != env[1]:
                    s = not s
                chir = '@' if s else '@@'
        arom = n in aromatic_atoms
        name = sym.lower() if arom else sym
        needs_bracket = (st['bracket_all'] or sym not in ORGANIC or a.isotope or a.charge or chir or a.is_radical
                         or st['mapping'] is True or (st['mapping'] and n in st['mapping']) or h is None)
        if not needs_bracket:
            if arom:
                # bare aromatic atom: reader derives H; only safe for carbon (c) and for hetero atoms without H
                if sym != 'C' and h:
                    needs_bracket = True
                elif sym != 'C' and not h and sym in ('N', 'P', 'B') and len(bonds[n]) == 2 and False:
                    needs_bracket = True
            else:
                # organic subset: default valence must give exactly h hydrogens
                val_ = sum(b.order for b in bonds[n].values() if b.order != 8)
                default = {'B': (3,), 'C': (4,), 'N': (3, 5), 'O': (2,), 'P': (3, 5), 'S': (2, 4, 6), 'F': (1,), 'Cl': (1,),
                           'Br': (1,), 'I': (1,)}[sym]
                tgt = next((d for d in default if d >= val_), None)
                if tgt is None or tgt - val_ != h:
                    needs_bracket = True
                if not bonds[n] and sym in ('B', 'C', 'P', 'S') and not h:
                    needs_bracket = True
        if not needs_bracket:
            return name
        t = '['
        if a.isotope:
            t += str(a.isotope)
        t += name + chir
        if h:
            t += 'H' if h == 1 else f'H{h}'
        c = a.charge
        if c:
            if st['charge_style'] and abs(c) <= 3:
                t += ('+' if c > 0 else '-') * abs(c)
            else:
                t += CHARGE[c]
        if st['mapping'] is True:
            t += f':{n}'
        elif st['mapping'] and n in st['mapping']:
            t += f':{st["mapping"][n]}'
        return t + ']'

    written_nbrs = {}
    import sys
    sys.setrecursionlimit(max(10000, sys.getrecursionlimit()))
    children = {}
    back = {}  # atom -> list of ring-closure partners (both ends listed)

    def span(n, parent):
        visited[n] = parent
        children[n] = []
        nb = list(bonds[n])
        rnd.shuffle(nb)
        for k in nb:
            if k == parent:
                continue
            if k in visited:
                if n not in back.get(k, ()):  # first sight of this back edge
                    back.setdefault(n, []).append(k)
                    back.setdefault(k, []).append(n)
            else:
                children[n].append(k)
                span(k, n)

    digit_of = {}
    in_use = set()

    def alloc():
        lo = 10 if st['big_closures'] else 1
        free = [d for d in range(lo, 100) if d not in in_use]
        if not free:
            raise RefInvalid('harness', 'closure numbers exhausted')
        d = free[0] if rnd.random() < .8 else rnd.choice(free[:5])
        in_use.add(d)
        return d

    all_tokens = []

    def emit(n):
        order.append(n)
        all_tokens.append(('atom', n))
        wn = [] if visited[n] is None else [visited[n]]
        rc = list(back.get(n, ()))
        rnd.shuffle(rc)
        release = []
        for k in rc:
            key = frozenset((n, k))
            if key in digit_of:
                d = digit_of.pop(key)
                all_tokens.append(('close', n, k, d, False))
                release.append(d)
            else:
                d = alloc()
                digit_of[key] = d
                all_tokens.append(('close', n, k, d, True))
            wn.append(k)
        for d in release:
            in_use.discard(d)
        ch = children[n]
        wn.extend(ch)
        written_nbrs[n] = wn
        for i, k in enumerate(ch):
            last = i == len(ch) - 1
            if not last:
                all_tokens.append('(')
            all_tokens.append(('bond', n, k))
            emit(k)
            if not last:
                all_tokens.append(')')

    for s0 in todo:
        if s0 in visited:
            continue
        if all_tokens:
            all_tokens.append('.')
        span(s0, None)
        emit(s0)

    text = []
    for tok in all_tokens:
        if tok in ('(', ')', '.'):
            text.append(tok)
        elif tok[0] == 'atom':
            text.append(atom_text(tok[1], written_nbrs[tok[1]]))
        elif tok[0] == 'bond':
            text.append(bond_text(tok[1], tok[2]))
        else:
            _, a, b, d, opening = tok
            o = bonds[a][b].order
            sym = bond_text(a, b)
            if (a, b) in mark and o == 1:
                # '/' '\\' on ring closures: 0 both ends, 1 opening end only, 2 closing end only
                mode = st['marks_on_closure']
                show = mode == 0 or (mode == 1 and opening) or (mode == 2 and not opening)
                text.append((sym if show else '') + _closure(d))
            elif opening or rnd.random() < .5:
                text.append(sym + _closure(d))
            else:
                text.append(_closure(d))
    s = ''.join(text)
    rad = [i for i, n in enumerate(order) if atoms[n].is_radical]
    if rad:
        s += ' |^1:' + ','.join(map(str, rad)) + '|'
    return s, order


# ---------------------------------------------------------------------------------------------------
# reference reader

_BRACKET = re.compile(r'^(\d{1,3})?([A-Z][a-z]?|[a-z]{1,2})(@@|@)?(H\d?)?(\+\+\+\+|\+\+\+|\+\+|\+[1-9]?|----|---|--|-[1-9]?)?(:\d{1,4})?$')
_SYMBOLS = set(('H He Li Be B C N O F Ne Na Mg Al Si P S Cl Ar K Ca Sc Ti V Cr Mn Fe Co Ni Cu Zn Ga Ge As Se Br Kr Rb Sr '
                'Y Zr Nb Mo Tc Ru Rh Pd Ag Cd In Sn Sb Te I Xe Cs Ba La Ce Pr Nd Pm Sm Eu Gd Tb Dy Ho Er Tm Yb Lu Hf Ta W '
                'Re Os Ir Pt Au Hg Tl Pb Bi Po At Rn Fr Ra Ac Th Pa U Np Pu Am Cm Bk Cf Es Fm Md No Lr Rf Db Sg Bh Hs Mt '
                'Ds Rg Cn Nh Fl Mc Lv Ts Og').split())
_AROM = {'b': 'B', 'c': 'C', 'n': 'N', 'o': 'O', 'p': 'P', 's': 'S', 'se': 'Se', 'as': 'As', 'te': 'Te'}


def _charge(t):
    if not t:
        return 0
    sign = 1 if t[0] == '+' else -1
    if len(t) > 1 and t[1].isdigit():
        return sign * int(t[1:])
    return sign * len(t)


def parse_molecule(smi):
    """-> dict(atoms=[dict(symbol, aromatic, isotope, charge, hcount (None for organic-subset), map, chiral, bracket)],
               bonds=[(i, j, order or None (implicit), mark i->j or None)], nbr_order={i: [j | 'H' | ('ring', digit)...]})"""
    atoms, bonds = [], []
    nbr = {}
    i, n = 0, len(smi)
    prev = None  # index of previous atom
    stack = []
    pending_bond = None  # (order or None, mark or None)
    rings = {}  # digit -> (atom, order, mark, position in nbr list)
    after_dot = True
    if not smi:
        raise RefInvalid('hard', 'empty')

    def add_atom(d):
        nonlocal prev, pending_bond, after_dot
        idx = len(atoms)
        atoms.append(d)
        nbr[idx] = []
        if prev is not None and not after_dot:
            o, mk = pending_bond or (None, None)
            bonds.append((prev, idx, o, mk))
            nbr[prev].append(idx)
            nbr[idx].append(prev)
        elif pending_bond is not None:
            raise RefInvalid('hard', 'bond without left atom')
        d['component_start'] = prev is None or after_dot
        if d['bracket'] and d['hcount']:
            pass
        pending_bond = None
        after_dot = False
        prev = idx
    while i < n:
        c = smi[i]
        if c == '[':
            j = smi.find(']', i)
            if j < 0:
                raise RefInvalid('hard', 'unterminated [')
            body = smi[i + 1:j]
            mt = _BRACKET.match(body)
            if not body:
                raise RefInvalid('hard', 'empty []')
            if not mt:
                raise RefInvalid('grey' if re.match(r'^[\w@+\-:]+$', body) else 'hard', f'bracket {body!r}')
            iso, sym, chir, hc, ch, mp = mt.groups()
            arom = False
            if sym in _AROM:
                arom, sym = True, _AROM[sym]
            elif sym not in _SYMBOLS:
                raise RefInvalid('hard', f'unknown element {sym}')
            h = 0
            if hc:
                h = 1 if len(hc) == 1 else int(hc[1:])
            add_atom(dict(symbol=sym, aromatic=arom, isotope=int(iso) if iso else None, charge=_charge(ch), hcount=h,
                          map=int(mp[1:]) if mp else None, chiral=chir, bracket=True))
            i = j + 1
        elif c in 'BCNOPSFI' or c in 'bcnops':
            if c == 'C' and smi[i:i + 2] == 'Cl':
                sym, i = 'Cl', i + 2
            elif c == 'B' and smi[i:i + 2] == 'Br':
                sym, i = 'Br', i + 2
            else:
                sym, i = c, i + 1
            arom = sym.islower()
            add_atom(dict(symbol=sym.upper() if arom else sym, aromatic=arom, isotope=None, charge=0, hcount=None, map=None,
                          chiral=None, bracket=False))
        elif c in '-=#:~/\\':
            if pending_bond is not None:
                raise RefInvalid('hard', 'two bonds in a row')
            if prev is None or after_dot:
                raise RefInvalid('hard', 'bond without left atom')
            pending_bond = ({'-': 1, '=': 2, '#': 3, ':': 4, '~': 8}.get(c), {'/': True, '\\': False}.get(c))
            i += 1
        elif c.isdigit() or c == '%':
            if i and smi[i - 1] == '(':
                raise RefInvalid('hard', 'closure right after (')
            if c == '%':
                if not re.match(r'^%\d\d', smi[i:]):
                    raise RefInvalid('hard', '% without two digits')
                d, i = int(smi[i + 1:i + 3]), i + 3
            else:
                d, i = int(c), i + 1
            if prev is None or after_dot:
                raise RefInvalid('hard', 'closure without atom')
            if d == 0:
                raise RefInvalid('grey', 'closure 0')
            if d in rings:
                a, o, mk, pos = rings.pop(d)
                o2, mk2 = pending_bond or (None, None)
                if a == prev:
                    raise RefInvalid('hard', 'ring closure to itself')
                if any({x, y} == {a, prev} for x, y, *_ in bonds):
                    raise RefInvalid('grey', 'duplicate bond by closure')
                if o is not None and o2 is not None and o != o2:
                    raise RefInvalid('grey', 'conflicting closure bonds')
                order = o if o is not None else o2
                # marks: normalise to a -> prev direction
                m_ap = mk if mk is not None else (None if mk2 is None else (not mk2))
                if mk is not None and mk2 is not None and mk == mk2:
                    raise RefInvalid('grey', 'conflicting closure marks')
                if (mk is not None or mk2 is not None) and (o or o2) not in (None, 1):
                    raise RefInvalid('grey', 'mark and order on closure')
                bonds.append((a, prev, order, m_ap))
                nbr[a][pos] = prev
                nbr[prev].append(a)
            else:
                o, mk = pending_bond or (None, None)
                rings[d] = (prev, o, mk, len(nbr[prev]))
                nbr[prev].append(('ring', d))
            pending_bond = None
        elif c == '(':
            if prev is None or after_dot:
                # chython deliberately tolerates a leading branch "(C)N" when it is balanced: not asserted either way
                raise RefInvalid('grey' if smi.count('(') == smi.count(')') and smi[i + 1:i + 2] not in ('(', ')', '')
                                 else 'hard', '( without atom')
            if pending_bond is not None:
                raise RefInvalid('hard', 'bond before (')
            if smi[i + 1:i + 2] in ('(', ')', ''):
                raise RefInvalid('hard', 'empty or doubled branch')
            stack.append(prev)
            i += 1
        elif c == ')':
            if not stack:
                raise RefInvalid('hard', 'unbalanced )')
            if pending_bond is not None:
                raise RefInvalid('hard', 'bond before )')
            if after_dot:
                raise RefInvalid('grey', 'dot before )')
            prev = stack.pop()
            i += 1
        elif c == '.':
            if pending_bond is not None:
                raise RefInvalid('hard', 'bond before dot')
            if prev is None or after_dot:
                raise RefInvalid('hard', 'leading or double dot')
            after_dot = True
            i += 1
        else:
            raise RefInvalid('hard', f'unexpected character {c!r}')
    if stack:
        raise RefInvalid('hard', 'unbalanced (')
    if rings:
        raise RefInvalid('hard', 'unclosed ring')
    if pending_bond is not None:
        raise RefInvalid('hard', 'trailing bond')
    if after_dot:
        raise RefInvalid('hard', 'trailing dot')
    return dict(atoms=atoms, bonds=bonds, nbr_order=nbr)


def parse(text):
    """full line: molecule or reaction, optional CXSMILES block.  -> dict(kind, molecules per role, radicals, fragments)"""
    if not text or text != text.strip() and False:
        raise RefInvalid('hard', 'empty')
    parts = text.split()
    if not parts:
        raise RefInvalid('hard', 'empty')
    smi = parts[0]
    cx = parts[1] if len(parts) > 1 else None
    if len(parts) > 2:
        raise RefInvalid('grey', 'trailing text')
    radicals, fragments = [], None
    if cx is not None:
        if not (cx.startswith('|') and cx.endswith('|') and len(cx) >= 2):
            raise RefInvalid('grey', 'not a cx block')
        for item in [x for x in cx[1:-1].split(',^') if x]:
            pass
        mt = re.findall(r'\^([1-7]):(\d+(?:,\d+)*)', cx)
        for kind, lst in mt:
            if kind != '1':
                raise RefInvalid('grey', 'non-monovalent radical')
            radicals += [int(x) for x in lst.split(',')]
        fm = re.search(r'f:((?:\d+(?:\.\d+)+)(?:,\d+(?:\.\d+)+)*)', cx)
        if fm:
            fragments = [[int(x) for x in g.split('.')] for g in fm.group(1).split(',')]
        rest = re.sub(r'\^[1-7]:\d+(?:,\d+)*', '', cx[1:-1])
        rest = re.sub(r'f:(?:\d+(?:\.\d+)+)(?:,\d+(?:\.\d+)+)*', '', rest)
        if rest.strip(','):
            raise RefInvalid('grey', 'unsupported cx feature')
        if len(set(radicals)) != len(radicals):
            raise RefInvalid('grey', 'duplicate radical index')
    if '>' in smi:
        roles = smi.split('>')
        if len(roles) != 3:
            raise RefInvalid('hard', 'wrong number of >')
        out = []
        for r in roles:
            if not r:
                out.append([])
                continue
            mols = r.split('.')
            if any(not x for x in mols):
                raise RefInvalid('grey', 'empty molecule in role')
            out.append([parse_molecule(x) for x in mols])
        # ring closures across dots inside a role are not representable after splitting: the per-molecule parse raises
        total = sum(len(mol['atoms']) for r in out for mol in r)
        if not total:
            raise RefInvalid('grey', 'reaction without molecules')
        if any(x >= total for x in radicals):
            raise RefInvalid('hard', 'radical index out of range')
        return dict(kind='reaction', roles=out, radicals=radicals, fragments=fragments)
    mol = parse_molecule(smi)
    if any(x >= len(mol['atoms']) for x in radicals):
        raise RefInvalid('hard', 'radical index out of range')
    if fragments is not None:
        raise RefInvalid('grey', 'fragment grouping on a molecule')
    return dict(kind='molecule', molecule=mol, radicals=radicals)

"""
pyxlite: execute the small Cython subset used by chython's three .pyx files under CPython,
with C integer semantics (width/sign truncation on assignment, C division) modelled explicitly.
See DESIGN.md 0.1.
"""
import ast, re, struct, math, types

CTYPES = {
    'char': ('b', 1), 'signed char': ('b', 1), 'unsigned char': ('B', 1),
    'short': ('h', 2), 'unsigned short': ('H', 2),
    'int': ('i', 4), 'unsigned int': ('I', 4), 'bint': ('i', 4),
    'long long': ('q', 8), 'unsigned long long': ('Q', 8),
    'double': ('d', 8),
}
INT_TYPES = {k for k in CTYPES if k != 'double'}


class Unsupported(Exception):
    """source left the supported Cython subset (harness error, never a violation)"""


def _wrap(v, t):
    if t == 'double':
        return float(v)
    if t == 'bint':
        return bool(v)
    if t in INT_TYPES:
        if isinstance(v, float):
            v = math.trunc(v)
        v = int(v)
        fmt, size = CTYPES[t]
        bits = size * 8
        v &= (1 << bits) - 1
        if fmt.islower() and v >= 1 << (bits - 1):
            v -= 1 << bits
        return v
    return v  # python object types


class Struct:
    def __init__(self, name, fields):
        self.name = name
        self.fields = fields  # list of (ctype or 'ptr', fname)
        self.fmt = '<' + ''.join(CTYPES[t][0] if t != 'ptr' else 'Q' for t, _ in fields)
        self.size = struct.calcsize(self.fmt)


class StructVal:
    def __init__(self, sdef, values=None):
        object.__setattr__(self, '_sdef', sdef)
        for (t, f), v in zip(sdef.fields, values or [0] * len(sdef.fields)):
            object.__setattr__(self, f, v)

    def __setattr__(self, k, v):
        t = dict((f, t) for t, f in self._sdef.fields)[k]
        object.__setattr__(self, k, v if t == 'ptr' else _wrap(v, t))


class Ptr:
    """typed pointer into a bytes-like buffer"""
    def __init__(self, buf, off, ctype, structs):
        self.buf, self.off, self.ctype, self.structs = buf, off, ctype, structs

    def _size(self):
        return self.structs[self.ctype].size if self.ctype in self.structs else CTYPES[self.ctype][1]

    def __add__(self, n):
        return Ptr(self.buf, self.off + n * self._size(), self.ctype, self.structs)

    def cast(self, ctype):
        return Ptr(self.buf, self.off, ctype, self.structs)

    def __getitem__(self, i):
        if isinstance(i, slice):
            assert self.ctype == 'unsigned char' and i.start is None and i.step is None
            return bytes(self.buf[self.off:self.off + i.stop])
        if i < 0:
            raise IndexError('negative index on C pointer')
        p = self.off + i * self._size()
        if p + self._size() > len(self.buf):
            raise IndexError('C buffer overrun (read)')
        if self.ctype in self.structs:
            s = self.structs[self.ctype]
            return StructVal(s, struct.unpack_from(s.fmt, self.buf, p))
        v = struct.unpack_from('<' + CTYPES[self.ctype][0], self.buf, p)[0]
        return bool(v) if self.ctype == 'bint' else v

    def __setitem__(self, i, v):
        if isinstance(i, slice):  # common_isotopes[:] = [...]
            for k, x in enumerate(v):
                self[k] = x
            return
        if i < 0:
            raise IndexError('negative index on C pointer')
        p = self.off + i * self._size()
        if p + self._size() > len(self.buf):
            raise IndexError('C buffer overrun (write)')
        t = 'int' if self.ctype == 'bint' else self.ctype
        struct.pack_into('<' + CTYPES[t][0], self.buf, p, _wrap(int(v) if self.ctype == 'bint' else v, t))

    def __bool__(self):
        return True


def make_runtime(structs):
    def _cast(t, v):
        t = t.strip()
        if t.endswith('*'):
            base = t[:-1].strip()
            if isinstance(v, Ptr):
                return v.cast(base)
            return Ptr(v, 0, base, structs)  # raw buffer
        return _wrap(v, t)

    def _addr(obj, idx=0):
        if isinstance(obj, Ptr):
            return obj + idx
        return Ptr(obj, idx, 'unsigned char', structs)  # memoryview / bytes of unsigned char

    def _sizeof(t):
        t = t.strip()
        return structs[t].size if t in structs else CTYPES[t][1]

    def _malloc(n):
        return bytearray(n)

    def _carray(t, n):
        return Ptr(bytearray(n * _sizeof(t)), 0, t, structs)

    def _memset(p, val, n):
        for k in range(n):
            p.buf[p.off + k] = val

    def _cdiv(a, b):
        if isinstance(a, (int, bool)) and isinstance(b, (int, bool)):
            q = abs(a) // abs(b)
            return q if (a >= 0) == (b >= 0) else -q
        return a / b

    def _cmod(a, b):
        if isinstance(a, (int, bool)) and isinstance(b, (int, bool)):
            return int(math.fmod(a, b))
        return math.fmod(a, b)

    def _frexp(x):
        return math.frexp(x)

    def _newstruct(t):
        return StructVal(structs[t])

    return dict(_cast=_cast, _addr=_addr, _sizeof=_sizeof, _malloc=_malloc, _carray=_carray, _memset=_memset,
                _cdiv=_cdiv, _cmod=_cmod, _frexp=_frexp, _wrap=_wrap, _newstruct=_newstruct, ldexp=math.ldexp,
                PyMem_Free=lambda p: None, _PyDict_NewPresized=lambda n: {})


TYPE_RE = r'(?:const\s+)?(?:unsigned long long|unsigned char|unsigned short|unsigned int|long long|signed char|char|short|int|bint|double|bytes|dict|tuple|list|object|void|[a-z_]+_t)'


def _find_operand_end(s, i):
    """index just past the primary expression starting at s[i]"""
    n = len(s)
    while i < n and s[i] == ' ':
        i += 1
    if i < n and s[i] == '&':
        i += 1
    if i < n and s[i] == '(':
        depth = 0
        while i < n:
            if s[i] in '([':
                depth += 1
            elif s[i] in ')]':
                depth -= 1
                if depth == 0:
                    i += 1
                    break
            i += 1
    else:
        while i < n and (s[i].isalnum() or s[i] in '_.'):
            i += 1
    while i < n and s[i] in '([':
        depth = 0
        while i < n:
            if s[i] in '([':
                depth += 1
            elif s[i] in ')]':
                depth -= 1
                if depth == 0:
                    i += 1
                    break
            i += 1
    return i


def _rewrite_expr(s):
    # sizeof
    s = re.sub(r'sizeof\(\s*([a-z_ ]+?)\s*\)', lambda m: f'_sizeof("{m.group(1)}")', s)
    s = s.replace('PyMem_Malloc(', '_malloc(').replace('memset(', '_memset(')
    # frexp with out-param
    s = re.sub(r'^(\s*)(\w+) = frexp\((\w+), &(\w+)\)', r'\1\2, \4 = _frexp(\3)', s)
    # casts, innermost-last: process from right to left so operands are already rewritten
    while True:
        ms = list(re.finditer(r'<\s*(' + TYPE_RE + r')\s*(\*?)\s*>', s))
        if not ms:
            break
        m = ms[-1]
        end = _find_operand_end(s, m.end())
        operand = s[m.end():end].strip()
        s = s[:m.start()] + f'_cast("{m.group(1)}{m.group(2)}", {operand})' + s[end:]
    # address-of: &name[expr] / &a.b[expr]
    while True:
        m = re.search(r'&([A-Za-z_][\w.]*)\[', s)
        if not m:
            break
        i = m.end() - 1
        depth = 0
        j = i
        while j < len(s):
            if s[j] == '[':
                depth += 1
            elif s[j] == ']':
                depth -= 1
                if depth == 0:
                    break
            j += 1
        s = s[:m.start()] + f'_addr({m.group(1)}, {s[i + 1:j]})' + s[j + 1:]
    return s


def translate(src):
    structs = {}
    out = []
    func_types = {}  # func name -> {var: ctype}
    lines = src.split('\n')
    i = 0
    cur_func = None
    cur_indent = None
    module_types = {}
    while i < len(lines):
        line = lines[i]
        if re.match(r'^(def|cdef)\s', line) and line.count('(') > line.count(')'):
            while line.count('(') > line.count(')'):
                i += 1
                line = line.rstrip() + ' ' + lines[i].strip()
        stripped = line.strip()
        indent = len(line) - len(line.lstrip())
        if cur_func is not None and stripped and indent == 0 and not stripped.startswith('#'):
            cur_func = None
        if re.match(r'^(cimport |from \S+ cimport )', stripped) or stripped.startswith('@cython.'):
            i += 1
            continue
        if stripped.startswith('cdef extern'):
            i += 1
            while i < len(lines) and (not lines[i].strip() or lines[i].startswith((' ', '\t'))):
                i += 1
            continue
        m = re.match(r'^cdef packed struct (\w+):', stripped)
        if m:
            fields = []
            i += 1
            while i < len(lines) and lines[i].startswith('    ') and lines[i].strip():
                f = lines[i].strip()
                fm = re.match(r'^(' + TYPE_RE + r')\s+(\*?)(\w+)$', f)
                assert fm, f
                fields.append(('ptr' if fm.group(2) else fm.group(1), fm.group(3)))
                i += 1
            structs[m.group(1)] = Struct(m.group(1), fields)
            continue
        # function definitions
        m = re.match(r'^(def|cdef\s+' + TYPE_RE + r')\s+(\w+)\((.*)\):\s*$', line)
        if m and indent == 0:
            cur_func = m.group(2)
            types_ = func_types.setdefault(cur_func, {})
            args = []
            for a in [x.strip() for x in m.group(3).split(',') if x.strip()]:
                a = a.replace(' not None', '')
                am = re.match(r'^(' + TYPE_RE + r')\s*(\[::1\]|\*)?\s*(\*?)(\w+)$', a)
                if am:
                    t = am.group(1).replace('const ', '')
                    if am.group(2) == '[::1]':
                        pass  # memoryview: leave untyped
                    elif am.group(2) == '*' or am.group(3):
                        pass  # pointer param
                    elif t in CTYPES:
                        types_[am.group(4)] = t
                    args.append(am.group(4))
                else:
                    args.append(a)
            out.append(f'def {cur_func}({", ".join(args)}):')
            # coerce typed params
            for a, t in types_.items():
                out.append(f'    {a} = _wrap({a}, "{t}")')
            i += 1
            continue
        # cdef declarations
        m = re.match(r'^(\s*)cdef\s+(' + TYPE_RE + r')\s*(\[\d+\])?\s*(.*)$', line)
        if m and not stripped.startswith('cdef packed') and not re.match(r'^cdef\s+\S+\s+\w+\(', stripped):
            ind, t, arr, rest = m.group(1), m.group(2).replace('const ', ''), m.group(3), m.group(4)
            types_ = func_types.setdefault(cur_func, {}) if cur_func else module_types
            rest = re.sub(r'#.*$', '', rest).strip()
            # split declarators on top-level commas
            decls, depth, cur = [], 0, ''
            for ch in rest:
                if ch in '([':
                    depth += 1
                elif ch in ')]':
                    depth -= 1
                if ch == ',' and depth == 0:
                    decls.append(cur.strip())
                    cur = ''
                else:
                    cur += ch
            if cur.strip():
                decls.append(cur.strip())
            for d in decls:
                dm = re.match(r'^(\*?)\s*(\w+)\s*(?:=\s*(.*))?$', d)
                assert dm, (line, d)
                ptr, name, init = dm.groups()
                if arr:
                    out.append(f'{ind}{name} = _carray("{t}", {arr[1:-1]})')
                    continue
                if ptr:
                    if init:
                        out.append(f'{ind}{name} = {_rewrite_expr(init)}')
                    continue
                if t in structs:
                    out.append(f'{ind}{name} = _newstruct("{t}")')
                    continue
                if t in CTYPES:
                    types_[name] = t
                if init is not None:
                    out.append(f'{ind}{name} = {_rewrite_expr(init)}')
            i += 1
            continue
        out.append(_rewrite_expr(line))
        i += 1
    return '\n'.join(out), structs, func_types, module_types


class Typer(ast.NodeTransformer):
    def __init__(self, func_types):
        self.func_types = func_types
        self.types = {}
        self.tmp = 0

    def visit_FunctionDef(self, node):
        old = self.types
        self.types = self.func_types.get(node.name, {})
        self.generic_visit(node)
        self.types = old
        return node

    def _wrapv(self, name, value):
        t = self.types.get(name)
        if t is None:
            return value
        return ast.Call(func=ast.Name('_wrap', ast.Load()), args=[value, ast.Constant(t)], keywords=[])

    def visit_BinOp(self, node):
        self.generic_visit(node)
        if isinstance(node.op, ast.Div):
            return ast.Call(func=ast.Name('_cdiv', ast.Load()), args=[node.left, node.right], keywords=[])
        if isinstance(node.op, ast.Mod):
            return ast.Call(func=ast.Name('_cmod', ast.Load()), args=[node.left, node.right], keywords=[])
        return node

    def visit_AugAssign(self, node):
        self.generic_visit(node)
        load = ast.parse(ast.unparse(node.target), mode='eval').body
        binop = self.visit_BinOp(ast.BinOp(left=load, op=node.op, right=node.value)) \
            if isinstance(node.op, (ast.Div, ast.Mod)) else ast.BinOp(left=load, op=node.op, right=node.value)
        value = binop
        if isinstance(node.target, ast.Name):
            value = self._wrapv(node.target.id, value)
        return ast.Assign(targets=[node.target], value=value)

    def visit_Assign(self, node):
        self.generic_visit(node)
        stmts = []
        if len(node.targets) == 1:
            tgt = node.targets[0]
            if isinstance(tgt, ast.Name):
                node.value = self._wrapv(tgt.id, node.value)
                return node
            if isinstance(tgt, ast.Tuple) and isinstance(node.value, ast.Tuple) and len(tgt.elts) == len(node.value.elts):
                node.value.elts = [self._wrapv(t.id, v) if isinstance(t, ast.Name) else v
                                   for t, v in zip(tgt.elts, node.value.elts)]
                return node
            if isinstance(tgt, ast.Tuple):
                # unpack then coerce
                stmts.append(node)
                for t in tgt.elts:
                    if isinstance(t, ast.Name) and t.id in self.types:
                        stmts.append(ast.Assign(targets=[ast.Name(t.id, ast.Store())],
                                                value=self._wrapv(t.id, ast.Name(t.id, ast.Load()))))
                return stmts
            return node
        # chained assignment: evaluate once, assign left to right with coercion
        self.tmp += 1
        tmp = f'_tmp{self.tmp}'
        stmts.append(ast.Assign(targets=[ast.Name(tmp, ast.Store())], value=node.value))
        for tgt in node.targets:
            v = ast.Name(tmp, ast.Load())
            if isinstance(tgt, ast.Name):
                v = self._wrapv(tgt.id, v)
            stmts.append(ast.Assign(targets=[tgt], value=v))
        return stmts

    def visit_For(self, node):
        self.generic_visit(node)
        return node


def load_pyx(path, modname, extra_globals=None):
    src = open(path).read()
    try:
        py, structs, func_types, module_types = translate(src)
        tree = ast.parse(py)
        tree = Typer(func_types).visit(tree)
        ast.fix_missing_locations(tree)
    except (AssertionError, SyntaxError, KeyError, AttributeError) as e:
        raise Unsupported(f'{path}: {type(e).__name__}: {e}') from e
    mod = types.ModuleType(modname)
    mod.__dict__.update(make_runtime(structs))
    if extra_globals:
        mod.__dict__.update(extra_globals)
    mod.__file__ = path
    mod.__pyxlite_source__ = py
    exec(compile(tree, path + '<pyxlite>', 'exec'), mod.__dict__)
    return mod

"""
Common machinery: recorder, known-findings, hypothesis shard driver, pool, evidence writer (DESIGN 1.1).
"""
import hashlib
import json
import os
import re
import sys
import time
import traceback
from collections import Counter

from .boot import VERIF, REPO, HarnessError

KNOWN_PATH = os.path.join(VERIF, 'known_findings.json')


def digest(x) -> str:
    return hashlib.sha1(repr(x).encode()).hexdigest()[:16]


def load_known(prop):
    try:
        data = json.load(open(KNOWN_PATH))
    except FileNotFoundError:
        return []
    return [f for f in data.get('findings', []) if f['property'] == prop]


class Violation(Exception):
    def __init__(self, clause, detail, bucket):
        super().__init__(f'{clause}: {detail}')
        self.clause, self.detail, self.bucket = clause, detail, bucket


def chython_frame(tb) -> str:
    """innermost frame that lies inside the repository working tree"""
    best = None
    for fs in traceback.extract_tb(tb):
        fn = fs.filename.replace('<pyxlite>', '')
        if '/chython/' in fn and '/verif/' not in fn:
            best = f"{fn.split('/chython/', 1)[1]}:{fs.name}"
    return best or 'outside-chython'


class Recorder:
    """collects counters, non-trivial digests, samples and failures of one shard"""

    def __init__(self, prop, known=None):
        self.prop = prop
        self.known = known if known is not None else load_known(prop)
        self.counts = Counter()
        self.nontrivial = set()
        self.samples = {}
        self.known_hits = Counter()
        self.violations = []  # (bucket, clause, detail, case)
        self.evaluations = 0
        self.frozen = False  # set while hypothesis is shrinking
        self.collect = False  # direct (enumerated) runs: record every failed clause instead of stopping at the first
        self.current_case = None

    # -- bookkeeping
    def count(self, label, k=1):
        if not self.frozen:
            self.counts[label] += k

    def nt(self, key):
        if not self.frozen:
            self.nontrivial.add(digest(key))

    def sample(self, stratum, value, cap=6):
        if self.frozen:
            return
        s = self.samples.setdefault(stratum, [])
        if len(s) < cap and value not in s:
            s.append(value)

    # -- failures
    def match_known(self, bucket):
        for f in self.known:
            if re.search(f['bucket'], bucket):
                return f
        return None

    def fail(self, clause, detail, case=None, sig=''):
        """report a failed oracle clause. Known finding -> counted, search continues; else raises Violation"""
        bucket = f'{clause}|{sig}' if sig else clause
        k = self.match_known(bucket)
        if k is not None:
            if not self.frozen:
                self.known_hits[k['id']] += 1
                self.sample('known-finding:' + k['id'], str(detail)[:400], cap=4)
            return False
        if self.collect:
            if len(self.violations) < 200:
                self.violations.append(dict(bucket=bucket, clause=clause, detail=str(detail)[:2000],
                                            case=self.current_case))
            return False
        raise Violation(clause, str(detail)[:2000], bucket)

    def guard(self, clause, fn, *a, expected=(), **kw):
        """call chython code; an exception not in `expected` is a failure of `clause` bucketed by its frame.
        returns (ok, value_or_exception)"""
        try:
            return True, fn(*a, **kw)
        except expected as e:
            return False, e
        except (Violation, HarnessError, KeyboardInterrupt, MemoryError):
            raise
        except Exception as e:
            sig = f'{type(e).__name__}@{chython_frame(e.__traceback__)}'
            self.fail(clause, f'{type(e).__name__}: {e}', sig=sig)
            return False, e

    def result(self):
        return dict(counts=dict(self.counts), nontrivial=sorted(self.nontrivial), samples=self.samples,
                    known_hits=dict(self.known_hits), violations=self.violations, evaluations=self.evaluations)


def merge(results):
    out = dict(counts=Counter(), nontrivial=set(), samples={}, known_hits=Counter(), violations=[], evaluations=0,
               exhaustive=None, aux=[])
    for r in results:
        if r.get('aux') is not None:
            out['aux'].append(r['aux'])
        out['counts'].update(r['counts'])
        out['nontrivial'].update(r['nontrivial'])
        out['known_hits'].update(r['known_hits'])
        out['violations'].extend(r['violations'])
        out['evaluations'] += r['evaluations']
        for k, v in r['samples'].items():
            s = out['samples'].setdefault(k, [])
            for x in v:
                if len(s) < 6 and x not in s:
                    s.append(x)
    return out


# ---------------------------------------------------------------------------------------------------
# hypothesis driver

def hyp_run(prop, strategy, check_case, *, max_examples, seed, shrink_budget=45.0, known=None, rec=None,
            to_plain=lambda c: c):
    """
    run `check_case(case, rec)` over cases drawn from `strategy`.
    Returns the shard result dict. The first violation is shrunk (bounded by shrink_budget seconds) and stored.
    """
    import hypothesis
    from hypothesis import given, settings, HealthCheck, Phase

    rec = rec or Recorder(prop, known)
    state = dict(first=None, best=None, t_fail=None)

    def body(case):
        if state['t_fail'] is not None and time.time() - state['t_fail'] > shrink_budget:
            # budget exhausted: only the best known case still fails, everything else passes instantly
            if state['best'] is not None and to_plain(case) == state['best'][0]:
                raise state['best'][1]
            return
        if not rec.frozen:
            rec.evaluations += 1
        try:
            check_case(case, rec)
        except Violation as v:
            if state['t_fail'] is None:
                state['t_fail'] = time.time()
                rec.frozen = True
            state['best'] = (to_plain(case), v)
            raise
        except (HarnessError, KeyboardInterrupt, MemoryError):
            raise
        except Exception as e:  # unexpected exception inside the check: classify by origin
            fr = chython_frame(e.__traceback__)
            if fr == 'outside-chython':
                raise HarnessError(f'check code failed: {type(e).__name__}: {e}\n{traceback.format_exc()}') from e
            bucket = f'exception|{type(e).__name__}@{fr}'
            k = rec.match_known(bucket)
            if k is not None:
                if not rec.frozen:
                    rec.known_hits[k['id']] += 1
                return
            v = Violation('exception', f'{type(e).__name__}: {e} at {fr}', bucket)
            if state['t_fail'] is None:
                state['t_fail'] = time.time()
                rec.frozen = True
            state['best'] = (to_plain(case), v)
            raise v from e

    test = given(strategy)(body)
    test = hypothesis.seed(seed)(test)
    test = settings(max_examples=max_examples, database=None, deadline=None, derandomize=False,
                    report_multiple_bugs=False, print_blob=False,
                    suppress_health_check=list(HealthCheck),
                    phases=(Phase.generate, Phase.shrink))(test)
    try:
        test()
    except Violation:
        case, v = state['best']
        rec.violations.append(dict(bucket=v.bucket, clause=v.clause, detail=v.detail, case=case))
    except hypothesis.errors.Flaky as e:
        if state['best'] is not None:
            case, v = state['best']
            rec.violations.append(dict(bucket=v.bucket, clause=v.clause, detail=v.detail + ' [flaky under shrinking]',
                                       case=case))
        else:
            raise HarnessError(f'hypothesis flaky: {e}')
    except BaseExceptionGroup as eg:  # noqa: F821 (py>=3.11)
        if state['best'] is not None:
            case, v = state['best']
            rec.violations.append(dict(bucket=v.bucket, clause=v.clause, detail=v.detail, case=case))
        else:
            raise
    rec.frozen = False
    return rec.result()


def direct_run(prop, cases, check_case, known=None, rec=None):
    """run check_case over explicitly enumerated cases (exhaustive sub-domains, replay); same bucketing"""
    rec = rec or Recorder(prop, known)
    rec.collect = True
    for case in cases:
        rec.evaluations += 1
        rec.current_case = case
        if len(rec.violations) >= 50:
            break
        try:
            check_case(case, rec)
        except Violation as v:
            rec.violations.append(dict(bucket=v.bucket, clause=v.clause, detail=v.detail, case=case))
            if len(rec.violations) >= 5:
                break
        except (HarnessError, KeyboardInterrupt, MemoryError):
            raise
        except Exception as e:
            fr = chython_frame(e.__traceback__)
            if fr == 'outside-chython':
                raise HarnessError(f'check code failed: {type(e).__name__}: {e}\n{traceback.format_exc()}') from e
            bucket = f'exception|{type(e).__name__}@{fr}'
            k = rec.match_known(bucket)
            if k is not None:
                rec.known_hits[k['id']] += 1
                continue
            rec.violations.append(dict(bucket=bucket, clause='exception',
                                       detail=f'{type(e).__name__}: {e} at {fr}', case=case))
            if len(rec.violations) >= 5:
                break
    return rec.result()


# ---------------------------------------------------------------------------------------------------
# pool

def _shard_entry(args):
    modname, shard, tier, seed = args
    import importlib
    mod = importlib.import_module(modname)
    try:
        return ('ok', mod.run_shard(shard, tier, seed))
    except HarnessError as e:
        return ('harness', str(e))
    except Exception as e:
        return ('harness', f'{type(e).__name__}: {e}\n{traceback.format_exc()}')


def run_pool(modname, shards, tier, seed, procs=None):
    import multiprocessing as mp
    procs = procs or int(os.environ.get('VERIF_PROCS', '16'))
    args = [(modname, s, tier, seed) for s in shards]
    if procs <= 1 or len(shards) <= 1:
        res = [_shard_entry(a) for a in args]
    else:
        ctx = mp.get_context('fork')
        with ctx.Pool(min(procs, len(shards))) as pool:
            res = pool.map(_shard_entry, args, chunksize=1)
    out = []
    for kind, r in res:
        if kind == 'harness':
            raise HarnessError(r)
        out.append(r)
    return out


# ---------------------------------------------------------------------------------------------------
# evidence / reporting

def jsonable(x):
    if isinstance(x, dict):
        return {str(k): jsonable(v) for k, v in x.items()}
    if isinstance(x, (list, tuple, set, frozenset)):
        return [jsonable(v) for v in (sorted(x, key=repr) if isinstance(x, (set, frozenset)) else x)]
    if isinstance(x, bytes):
        return x.hex()
    if isinstance(x, (str, int, float, bool)) or x is None:
        return x
    return repr(x)


def write_replay(prop, viol):
    d = os.path.join(VERIF, 'replays')
    os.makedirs(d, exist_ok=True)
    body = jsonable(dict(property=prop, bucket=viol['bucket'], clause=viol['clause'], detail=viol['detail'],
                         case=viol['case']))
    h = hashlib.sha1(json.dumps(body['case'], sort_keys=True).encode()).hexdigest()[:12]
    path = os.path.join(d, f'{prop}-{h}.json')
    with open(path, 'w') as f:
        json.dump(body, f, indent=1, sort_keys=True)
    return path


def finish(prop, tier, seed, merged, *, rule, assumptions, t0, level='exploration', exhaustive=None, extra=None):
    """write evidence, print KNOWN-FINDING / VIOLATION lines, return exit code"""
    known = {f['id']: f for f in load_known(prop)}
    for kid, n in sorted(merged['known_hits'].items()):
        print(f"KNOWN-FINDING: property={prop} {known[kid]['what']} [{kid}; {n} case(s) this run]")
    code = 0
    seen = set()
    for v in merged['violations']:
        if v['bucket'] in seen:
            continue
        seen.add(v['bucket'])
        path = write_replay(prop, v)
        print(f'VIOLATION property={prop} replay={path}')
        print(f"  clause={v['clause']} bucket={v['bucket']}\n  detail={v['detail'][:600]}", file=sys.stderr)
        code = 1
    samples = []
    for k, vs in sorted(merged['samples'].items()):
        for x in vs:
            samples.append({'stratum': k, 'case': jsonable(x)})
    cov = dict(evaluations=int(merged['evaluations']), distinct_nontrivial=len(merged['nontrivial']),
               rule=rule, samples=samples, strata=jsonable(dict(sorted(merged['counts'].items()))),
               known_finding_hits=jsonable(dict(merged['known_hits'])))
    if exhaustive is not None:
        cov['exhaustive'] = bool(exhaustive)
    if extra:
        cov.update(jsonable(extra))
    ev = dict(property_id=prop, tier=tier, seed=int(seed), level=level, coverage=cov,
              assumptions=list(assumptions), wall_s=round(time.time() - t0, 2), violations=len(seen),
              repo=REPO)
    d = os.path.join(VERIF, 'evidence')
    os.makedirs(d, exist_ok=True)
    with open(os.path.join(d, f'{prop}.json'), 'w') as f:
        json.dump(ev, f, indent=1, sort_keys=True)
    if code == 0 and (cov['evaluations'] < 1 or cov['distinct_nontrivial'] < 2):
        raise HarnessError(f'{prop}: vacuous run (evaluations={cov["evaluations"]}, '
                           f'distinct_nontrivial={cov["distinct_nontrivial"]})')
    return code

import importlib.util, sys, os
# load the real package under a private name
_real_path = None
for p in sys.path:
    cand = os.path.join(p, 'CachedMethods', '__init__.py')
    if os.path.isfile(cand) and os.path.abspath(cand) != os.path.abspath(__file__):
        _real_path = cand; break
spec = importlib.util.spec_from_file_location('_CachedMethods_real', _real_path)
_real = importlib.util.module_from_spec(spec); spec.loader.exec_module(_real)
FrozenDict=_real.FrozenDict; cached_property=_real.cached_property; cached_method=_real.cached_method; cached_args_method=_real.cached_args_method
_S=_real._SENTINEL
class class_cached_property(_real.class_cached_property):
    def __get__(self, obj, cls):
        if obj is None: return self
        if hasattr(obj, '__dict__'):
            return super().__get__(obj, cls)
        cc = cls.__class_cache__.get(cls)
        if cc is None:
            cc = cls.__class_cache__.setdefault(cls, {})
        v = cc.get(self.name, _S)
        if v is _S:
            v = _real._freeze(self.func(obj)); cc[self.name]=v
        return v
__all__ = _real.__all__

#!/bin/bash
# run registered quick checks against one seeded change applied to /repo, then undo it
# usage: tools/seed_run.sh <name> <ID> [<ID>...]
name=$1; shift
cd /repo
if ! git apply /verif/seeded/$name/patch.diff 2>/dev/null; then
  git apply --3way /verif/seeded/$name/patch.diff >/dev/null 2>&1 || { echo "cannot apply $name"; git checkout -q -- .; git reset -q; exit 2; }
  git reset -q
fi
cd /verif
for id in "$@"; do
  out=$(timeout 900 ./run $id quick 2>&1); code=$?
  echo "== $name vs $id: exit=$code $(echo "$out" | grep -c '^VIOLATION') violation line(s)"
  echo "$out" | grep -A2 "^VIOLATION" | head -8 | cut -c1-220
done
git -C /repo checkout -q -- . ; git -C /repo reset -q; git -C /repo status --short | head -3

#!/usr/bin/env python3
"""print the sub-agent prompt for one property and create its scratch worktree (outside /repo and /verif)"""
import json, os, subprocess, sys
pid = sys.argv[1]; tag = sys.argv[2] if len(sys.argv) > 2 else 'a'
p = next(json.loads(l) for l in open('/verif/properties.jsonl') if json.loads(l)['id'] == pid)
wt = f'/tmp/wt_{pid}_{tag}'; out = f'/tmp/seed_out/{pid}_{tag}'
if not os.path.isdir(wt):
    subprocess.run(['git', '-C', '/repo', 'worktree', 'add', '--detach', wt, 'HEAD'], check=True, capture_output=True)
os.makedirs(out, exist_ok=True)
extra = sys.argv[3] if len(sys.argv) > 3 else ''
print(f"""You are helping to evaluate a verification effort for the Python cheminformatics library chython.
Your job: inject ONE realistic bug into a scratch copy of the library that breaks the semantic property below, while the
library still imports and the existing test suite still passes. Work ONLY inside your scratch git worktree {wt}
(a worktree of /repo). Never edit /repo, never look at or touch /verif.

PROPERTY {pid}: {p['title']}
Statement: {p['statement']}
Quantified over: {p['quantifier']['text']}
Code anchors (files relative to the worktree): {', '.join(p['anchors']['files'])}

How to run chython here: read /opt/chyboot/README.txt. In short:
  cd {wt} && PYTHONPATH=/opt/chyboot /venv/bin/python -c "import chyboot, chython; print(chython.smiles('CCO'))"
Test suites that must still pass WITH your change:
  (a) pinned baseline:  cd {wt} && /venv/bin/python -m pytest -q -p no:cacheprovider      -> exactly "30 passed" (213 fail for an unrelated dependency reason both before and after; the set of passing tests must not shrink)
  (b) full suite under the env shim:  cd {wt} && PYTHONPATH=/opt/chyboot/shim /venv/bin/python -m pytest -q -p no:cacheprovider   -> "243 passed"

Requirements for the change:
 * It is a small, plausible edit of chython source (.py or .pyx under {wt}/chython) such as a maintainer could make by mistake in a
   refactoring or "optimisation": wrong tie-break, dropped cache flush, swapped fields, off-by-one, lost special case, wrong table entry...
 * It breaks the property above for SOME inputs, but needs something specific to manifest: an unusual input class, a multi-step sequence
   of operations, a particular atom numbering/insertion order, a rare element/charge/isotope, two cooperating sites that each look fine
   alone, etc. Changes that ordinary use would expose at once (e.g. every molecule fails) are NOT wanted.
 * Both test suites (a) and (b) still pass.{extra}

Deliverables, written to {out}/ :
 1. patch.diff  = output of `git -C {wt} diff` (apply-able with `git apply` on the pinned tree).
 2. demo.py     = a small self-contained program (first lines: `import chyboot, chython`) that exits 0 on the unchanged tree and
                  exits non-zero (assertion failure showing the property violation) with your change applied. It is run as
                  `cd <tree> && PYTHONPATH=/opt/chyboot /venv/bin/python {out}/demo.py`. It must demonstrate a violation of the
                  PROPERTY as stated (observable behaviour), not merely that some internal value changed.
 3. meta.json   = {{"property": "{pid}", "summary": "...what was changed...", "needs": "...what specific input/sequence is needed to manifest...",
                  "files": [...], "ran": ["...commands you ran and their outcomes..."]}}
Verify all of it yourself (do NOT use `git stash`: the stash is shared between worktrees; instead save your change with `git diff > file`, `git checkout -- .`, and re-apply with `git apply file`): run demo.py on the unchanged tree -> exit 0; with the change -> non-zero; run both
test suites with the change. When finished leave the worktree with the change applied (uncommitted). Report briefly what you did.
Try to be subtle: prefer a bug whose trigger is NOT the most obvious example of the property.""")

#!/bin/bash
# run every registered check of tier $1 at each VERIF_SEED given; print one line per (check, seed) that is not quiet
tier=$1; shift
cd /verif
for seed in "$@"; do
for id in $(/venv/bin/python -c "import json;print(' '.join(c['property_id'] for c in json.load(open('MANIFEST.json'))['checks']))"); do
  out=$(VERIF_SEED=$seed ./run $id $tier 2>&1); code=$?
  if [ $code -ne 0 ]; then echo "== $id seed=$seed exit=$code"; echo "$out" | grep -A3 '^VIOLATION\|Traceback\|Error' | head -20; fi
done
echo "seed $seed done"
done

#!/bin/bash
# run every registered quick (or $1) check on the current tree; one summary line each
tier=${1:-quick}
cd /verif
for id in $(/venv/bin/python -c "import json;print(' '.join(c['property_id'] for c in json.load(open('MANIFEST.json'))['checks']))"); do
  s=$(date +%s); out=$(./run $id $tier 2>&1); code=$?
  echo "$id exit=$code $(( $(date +%s)-s ))s viol=$(echo "$out" | grep -c '^VIOLATION') known=$(echo "$out" | grep -c '^KNOWN-FINDING') | $(echo "$out" | grep "^$id " | tail -1)"
done

#!/bin/bash
# for every seeded change: validate (demo + suites) is NOT repeated here; apply it to /repo, run its own property's quick check
# (and any further IDs given as arguments), revert; write seeded/RESULTS.md.  Nothing else may use /repo meanwhile.
cd /verif
extra="$@"
out=seeded/RESULTS.md
echo "| seed | applies | own check (quick) | other checks run |" > $out
echo "|---|---|---|---|" >> $out
for d in seeded/*/; do
  name=$(basename $d); id=${name%%_*}
  grep -q obsolete_since $d/meta.json && { echo "| $name | obsolete (neutralised by a later fix, see meta.json) | | |" >> $out; continue; }
  res=$(tools/seed_run.sh $name $id $extra 2>&1)
  own=$(echo "$res" | grep "^== $name vs $id:" | sed 's/.*: //')
  others=$(echo "$res" | grep "^== $name vs " | grep -v "vs $id:" | sed "s/^== $name vs //" | tr '\n' ';')
  applies=$(echo "$res" | grep -q "cannot apply" && echo no || echo yes)
  echo "| $name | $applies | $own | $others |" >> $out
  git -C /repo status --short | grep -v golden.rdf | grep -q . && { echo "repo dirty after $name" >&2; git -C /repo checkout -- . ; }
done
cat $out

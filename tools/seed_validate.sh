#!/bin/bash
# validate a sub-agent's seeded change in a fresh scratch worktree, then store it under /verif/seeded/<name>/
# usage: tools/seed_validate.sh <name e.g. C01_a>
set -u
name=$1; src=/tmp/seed_out/$name; wt=/tmp/val_$name
[ -f $src/patch.diff ] || { echo "no patch"; exit 2; }
git -C /repo worktree add --detach $wt HEAD >/dev/null 2>&1 || { echo "worktree failed"; exit 2; }
cd $wt
PYTHONPATH=/opt/chyboot /venv/bin/python $src/demo.py >/tmp/val_$name.clean.log 2>&1; clean=$?
git apply $src/patch.diff || { echo "patch does not apply on current HEAD"; cd /; git -C /repo worktree remove --force $wt; exit 3; }
PYTHONPATH=/opt/chyboot /venv/bin/python $src/demo.py >/tmp/val_$name.bug.log 2>&1; bug=$?
base=$(/venv/bin/python -m pytest -q -p no:cacheprovider 2>&1 | grep -E "passed|failed" | tail -1)
shim=$(PYTHONPATH=/opt/chyboot/shim /venv/bin/python -m pytest -q -p no:cacheprovider 2>&1 | grep -E "passed|failed" | tail -1)
cd /; git -C /repo worktree remove --force $wt
echo "$name: demo clean exit=$clean, with change exit=$bug | baseline: $base | shim: $shim"
if [ $clean -eq 0 ] && [ $bug -ne 0 ] && echo "$base" | grep -q "30 passed" && echo "$shim" | grep -q "243 passed"; then
  mkdir -p /verif/seeded/$name; cp $src/patch.diff $src/demo.py /verif/seeded/$name/
  /venv/bin/python - <<PY
import json
m=json.load(open('$src/meta.json'))
m['validated_by_builder']={'demo_exit_clean_tree':$clean,'demo_exit_with_change':$bug,'baseline':'$base','shim_suite':'$shim','repo_head':'$(git -C /repo log --format=%h -1)'}
json.dump(m,open('/verif/seeded/$name/meta.json','w'),indent=1)
PY
  echo "KEPT /verif/seeded/$name"
else
  echo "REJECTED $name"
fi

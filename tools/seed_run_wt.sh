#!/bin/bash
# like seed_run.sh but applies the seeded change in a scratch worktree (outside /repo and /verif) and points the checks at it with
# VERIF_REPO, so /repo itself stays untouched (usable while other runs read /repo)
# usage: tools/seed_run_wt.sh <name> <ID> [<ID>...]
name=$1; shift
wt=/tmp/srw_$name
git -C /repo worktree add --detach $wt HEAD >/dev/null 2>&1 || { echo "worktree failed"; exit 2; }
( cd $wt && { git apply /verif/seeded/$name/patch.diff 2>/dev/null || git apply --3way /verif/seeded/$name/patch.diff >/dev/null 2>&1; } ) || { echo "cannot apply $name"; git -C /repo worktree remove --force $wt; exit 2; }
cd /verif
for id in "$@"; do
  out=$(VERIF_REPO=$wt timeout 900 ./run $id quick 2>&1); code=$?
  echo "== $name vs $id: exit=$code $(echo "$out" | grep -c '^VIOLATION') violation line(s)"
  echo "$out" | grep -A2 "^VIOLATION" | head -8 | cut -c1-220
done
git -C /repo worktree remove --force $wt

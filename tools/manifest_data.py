CHECKS = [
    dict(id='C01',
         text='Metamorphic search: each generated molecule (corpus, curated, repository literals, constructive and symmetric '
              'constructions with drawn stereo labels) is re-described by rebuild with drawn numbering/insertion order, '
              'copy+remap, the random writer in 5 styles and an RDKit random Kekule spelling; canonical string, ==, hash, '
              'format variants, Morgan partition and written order must agree. Claimed-domain membership is decided by an '
              'independent orbit oracle. Exploration: no claim beyond the cases generated.'
              ' A molecule that served as a member of a formatted reaction must keep the string, hash and equality of a fresh object.'
              ' The curated witness list is swept completely on every run.',
         note='Trusted: orbit/automorphism oracle (vf/oracles/wl.py), RDKit as the second writer, the rebuild operator '
              '(labels read via _translate_*_sign, parity-checked in C12). Genuine canonicaliser defects outside the two '
              'documented gaps are listed in known_findings.json with independent structural detectors.',
         technique='metamorphic property-based testing (Hypothesis) with an independent symmetry oracle'),
    dict(id='C02',
         text='Round trip by generated inputs: every generated molecule is written in 3 drawn format variants (subsets of '
              'a/A/m/h/r, canonical) with a drawn random-writer seed and read back; comparison is atom-wise under the written '
              'order (elements, isotopes, charges, radicals, H, bond orders, tetrahedral/allene/cis-trans signs). Injectivity: '
              'exhaustive enumeration of decorated graphs <= 5 atoms (6 thorough) against brute-force isomorphism classes, and all '
              'label assignments of sampled molecules against stereo signatures under the brute-force automorphism group.'
              ' str() after reading smiles_atoms_order first must equal str() of a fresh object.'
              ' Ladder molecules keep ten or more ring bonds open at once so two-digit ring-closure numbers follow bare atoms.'
              ' The curated witness list is swept completely on every run.',
         note='Trusted: brute-force canonical keys and automorphisms (vf/oracles/iso.py); stereo signs read with _translate_*_sign '
              '(parity-checked in C12); SMILES-inexpressible partial labelling of conjugated polyenes is not generated.',
         technique='round-trip property-based testing (Hypothesis) plus exhaustive small-graph enumeration against brute-force isomorphism'),
    dict(id='C03',
         text='Generated-input search on the reader: (D1) molecules and reactions spelled by an independent random SMILES '
              'writer (known denotation) are read and compared atom-for-atom with the generating graph, with an independent '
              'reference reader and with RDKit for the absolute stereo convention; (D2) every token sequence of length <= 4 '
              '(5 thorough) over a 24-token alphabet and (D3) single-token corruptions of the 4200 corpus strings are classified '
              'by the reference reader: valid strings must be accepted and equal, hard-invalid ones rejected, and only '
              'ValueError subclasses may escape; thorough adds atheris coverage-guided campaigns on smiles() and smarts() with '
              'the same oracle inside the target.'
              ' Atom maps (none / all / dense partial subsets) are written in molecule and reaction text and must become the atom numbers.'
              ' Every element symbol in four letter cases in six contexts is enumerated (accept exactly the language).'
              ' Component-start spellings (chirality, marks, maps) are also placed in second and later components.'
              ' Every corpus / curated source text is also read by RDKit and converted by the bridge: every label RDKit reads must be read by the library with the same sense. The curated witness list is swept completely on every run.',
         note='Trusted: vf/oracles/smiles_ref.py (reference reader + writer), RDKit; grey-zone strings are only required to '
              'return a well-formed object or raise ValueError. D2 is exhaustive for its alphabet and length bound only.',
         technique='grammar/graph-directed generation + exhaustive token enumeration + atheris coverage-guided fuzzing against a reference reader and RDKit'),
    dict(id='C04',
         text='Exhaustive enumeration of centre states (element x charge x radical x every multiset of <= 4 bonds of orders 1-3 '
              'to common neighbours; 93k states quick, all 118 elements and charges -4..+4 thorough) plus generated whole '
              'molecules: the hydrogen count is re-derived from the raw element tables by an independent interpreter, '
              'check_valence() must report exactly the atoms without a state, RDKit must agree on every centre/atom both accept, '
              'and formula/charge/radical/mass totals are recomputed.'
              ' Isotopic and plain hydrogen atoms attached through the API, then explicify/implicify: every count is re-derived and totals must not move.'
              ' Several structural edits in one transaction and written bracket hydrogen counts are checked against the tables as well.'
              ' canonicalize() is run with keep_kekule crossed with both fix_tautomers values and every stored count re-derived.'
              ' The curated witness list is swept completely on every run.',
         note='Trusted: the re-implementation of the documented table semantics (vf/oracles/valence_ref.py) and RDKit valence '
              'model as independent judge for common chemistry; consistent edits of exotic data tuples outside RDKit are a stated limit.',
         technique='exhaustive enumeration of centre states + property-based molecules against a table re-derivation and RDKit differential'),
    dict(id='C05',
         text='Generated aromatic systems (ring-system generator building Kekule graphs by an independent perfect-matching routine, '
              'plus corpus/curated/literal/constructive molecules) are converted back and forth: invariants of kekule()/thiele() '
              '(completeness, valence, connectivity, formula, charges, radicals, per-atom H, idempotence, round trip), every '
              'enumerated Kekule form valid/distinct/complete against the perfect-matching count and aromatising to one form, '
              'atom-wise equality of the aromatic form under a drawn rebuild/renumbering, RDKit resonance equivalence.'
              ' The same conversions are repeated on one object with drawn reads (string, compiled structure, queries, ring set) in between: cache state must not influence the forms.'
              ' canonicalize(keep_kekule=True) must carry the per-atom data of canonicalize() and only table states.'
              ' All pairs of 20 ring ylidene fragments joined by an exocyclic double bond are enumerated. The curated witness list is swept completely on every run.',
         note='Trusted: independent perfect-matching counter (exact only for C / pyridine-N systems, applied only there), MCB '
              'uniqueness oracle, RDKit. Tautomer fixing is held off for per-atom clauses (documented behaviour).',
         technique='property-based testing with a constructive ring-system generator; invariant, round-trip, metamorphic (renumbering) and differential (matching count, RDKit) oracles'),
    dict(id='C06',
         text='Exhaustive enumeration of labelled connected graphs (degree <= 4; n <= 6 complete and a rotating 5 % slice of n = 7 '
              'in quick; n = 7 complete and n = 8 with <= 3 rings in thorough) plus generated ring assemblies, macrocycles, corpus '
              'and curated polycycles under random renumbering with coordinate bonds added: ring count, simple cycles of '
              'existing bonds, GF(2) independence, minimum total size against an independent minimum-cycle-basis computation, '
              'and agreement of atom/bond ring marks, ring counts and components with the reported set.'
              ' Two-assembly molecules (separate components, bonded, linked) exercise the molecule-wide ring count.'
              ' A rejected transaction that looked at the rings of the edited state must leave ring list, counts, marks and components untouched.'
              ' The curated witness list is swept completely on every run.',
         note='Trusted: vf/oracles/mcb.py (bridge/block finder, exhaustive simple-cycle enumeration, GF(2) elimination). The '
              'recorded theta-type gap is excluded from the minimality clause by an independent structural predicate and counted.',
         technique='exhaustive small-graph enumeration + property-based ring assemblies against an independent minimum cycle basis oracle'),
    dict(id='C07',
         text='Generated (pattern, target) pairs - subgraphs cut from the target or another molecule as molecule or query with drawn '
              'flags, 46 + 19 SMARTS incl. ring closures on cage-like targets, multi-component patterns, drawn scopes, both filter '
              'settings - are compared with an exhaustive reference enumeration of all injective maps satisfying the four stated '
              'clauses (set equality, no duplicates, one mapping per image set, scope restriction, operator agreement); '
              'lazy_product is compared with itertools.product.'
              ' A metallacycle mode spells ring patterns from every ring atom of targets with Pt/Hg/Pb/Sn ring atoms.'
              ' Metallacycle targets are searched with hybridisation-constrained heavy-atom patterns.',
         note='Trusted: brute-force embedding enumerator (vf/oracles/iso.py) bounded to targets <= 24 / patterns <= 8 atoms; leaf '
              'predicates are the library atom/bond __eq__ (their meaning is decided in C08).',
         technique='differential property-based testing against an exhaustive reference enumerator'),
    dict(id='C08',
         text='For generated molecules (incl. explicit hydrogens added through the API) every drawn query atom / two-atom query - all '
              'documented primitives and drawn combinations, as SMARTS text and through the query API - must match exactly the '
              'atoms / ordered pairs selected by an independently computed attribute vector (adjacency-derived neighbours, '
              'heteroatoms, hybridisation; independent ring oracle; stored charge/isotope/radical/H); stereo-marked queries are '
              'tested against both enantiomers; every bracket token string up to 3 tokens and every bond token is enumerated for '
              'the reject-or-query clause, with a list of out-of-subset SMARTS that must raise the invalid-SMARTS error.'
              ' A periodic-table sweep checks element, #n, two- and three-member element lists drawn over the whole table, A and M on one- and three-atom molecules of every element.'
              ' Ring marks combined with cis/trans marks on one bond (metamorphic), and QueryElement.from_atom with drawn flag subsets.'
              ' Single counts are passed to the query-atom constructors as plain ints (incl. 0), several as tuples, and must match what the text form matches.'
              ' Two-atom queries written after a bond of the molecule put one primitive on the atom reached by neighbour expansion.',
         note='Trusted: the documented default semantics of query atoms (charge 0 / non-radical unless given, empty = any, ~ = special '
              'bond), the ring oracle (ring-size primitives only where the minimum cycle basis is unique), an explicit metal list '
              '(ambiguous elements not used).',
         technique='property-based differential testing of query semantics against independent attribute vectors + exhaustive token enumeration'),
    dict(id='C09',
         text='Differential testing of the two matcher configurations on generated (query, molecule) pairs (C07/C08 generators incl. '
              'ring closures on cage-like targets, scopes, both filter settings) and an exhaustive bit-layout sweep (every element x '
              'tabulated isotope x charge x radical with exact and one-attribute-off queries; neighbour/heteroatom 0-14, H 0-4, '
              'hybridisation 1-4, ring sizes 3-66).'
              ' Per element additionally: A, M and element lists, and five-membered ring queries numbered from three different atoms on a ring containing that element.'
              ' Targets already searched are renumbered / extended in place and searched again by both matchers; Cl-X element pairs are swept.',
         note='The compiled configuration is the repository .pyx source executed by a transliterator with C integer semantics and '
              'bounds-checked pointers (no Cython here): source-level defects are in reach, compiler-level effects are not. '
              'Documented exclusions (Lv/Ts/Og, rings > 65) are skipped and counted.',
         technique='differential property-based testing of two configurations + exhaustive sweep of the bit layout'),
    dict(id='C10',
         text='Round trip and layout by generated inputs: molecules in raw/Kekule/thiele state renumbered to non-contiguous numbers '
              '<= 4095 with drawn coordinates, star scaffolds (0-15 neighbours), bond-count residues mod 8, every element x '
              'tabulated isotope with rotating charge/H/radical, reactions with 0-3 molecules per role incl. empty roles: '
              'unpack(pack(x)) field by field, bytes equal to an independent reference encoder, reference decoder equal to '
              'unpack, version-0 order block, pack_len, dispatch, format limits; the published packs (every 10th quick, all '
              '4200 thorough) against the reference decoder, re-packing and the csv constitution.'
              ' The curated witness list is swept completely on every run.',
         note='Trusted: vf/oracles/packref.py written from the docstring layout; codec run through the pyx transliterator. Pair '
              'orientation in cis/trans records and float16 truncation vs rounding are not fixed by the layout text; either accepted.',
         technique='round-trip + differential (independent reference codec) property-based testing; regression corpus of published packs'),
    dict(id='C19',
         text='Configuration sweep over fresh interpreter processes with six PYTHONHASHSEED values on a generated sample of molecules: '
              'twelve derived values (canonical string, orderings, ring set, fingerprints, ordered match lists of 12 SMARTS, '
              'canonicalize() result, pack bytes, ...) are each computed uncached, cached, on a copy and on a second fresh object '
              'in the opposite order; all digests must agree within and across processes.'
              ' canonicalize / standardize_charges / neutralize are applied to a cold and to a warmed fresh object and must agree.'
              ' A molecule after serving as a reaction member and after a rejected transaction that read the edited state must equal a fresh object.'
              ' Values re-read after a multi-component search with a searching scope must equal those of a cold process.'
              ' A fixed list of ions with every charge -4..+4 is always swept.',
         note='Only hash-seed / process / cache-order dependence observable on this platform within six seeds is detectable; '
              'hash(molecule) is excluded by the property text (string hash).',
         technique='configuration-sweep property-based testing (metamorphic: same input, different process/hash seed/cache order)'),
    dict(id='C20',
         text='Generated molecules both toolkits accept (rebuilt with drawn numbering/insertion order, Kekule or aromatic, drawn 2D '
              'coordinates, mapping on/off) are pushed through to_rdkit_molecule / from_rdkit_molecule: per-atom payload (element, '
              'isotope, charge, radical, total H, map number, coordinates), chirality-aware equivalence with RDKit\'s own reading '
              'of the SMILES, atom-wise and canonical-string identity of the round trip, and the same for RDKit-originated corpus '
              'molecules (also with hydrogens added by RDKit).'
              ' The configuration RDKit reads from the source text must equal the one that comes back through the bridge (8-ring E/Z included).'
              ' The curated witness list is swept completely on every run.',
         note='Trusted: RDKit canonical SMILES / chirality-aware substructure matching and chython canonical SMILES as the two judges '
              'named by the property; molecules where the aromaticity models or RDKit sanitisation rewrite the structure are '
              'skipped and counted.',
         technique='round-trip and differential property-based testing against RDKit'),
    dict(id='C11',
         text='Generated records (1-4 Kekule molecules or a reaction with 0-2 molecules per role; charges, isotopes, radicals, aromatic '
              'and coordinate bonds, titles, metadata over printable text incl. < > & and multi-line values; RDKit or clean2d layout) '
              'are written by the five writers and read back: atom order/numbers, atoms, bonds, roles, title, metadata, tetrahedral '
              'and (where the layout encodes it) cis/trans configuration; the V2000 block is read by RDKit (wedge convention); '
              'RDKit-written V2000/V3000 blocks of corpus molecules are read; one record of a multi-record file is damaged in '
              'three ways; random access on disk equals sequential reading; repository files give the delimiter-counted number '
              'of records.'
              ' Whether a drawing encodes a label is decided geometrically from the stored coordinates at record precision, never by the library.'
              ' Records written in two sessions (append=True) on a real file must read back like one session.'
              ' The curated witness list is swept completely on every run.',
         note='Trusted: RDKit mol block reader/writer as the independent program (drug-like closed-shell molecules only); stereo is '
              'asserted only where the 2D layout can encode it (non-degenerate wedges, cis/trans reproduced from coordinates) and for '
              'centres without explicit hydrogens.',
         technique='round-trip property-based testing with fault injection (damaged records) and RDKit differential'),
    dict(id='C12',
         text='(1) exhaustive permutation sweep on every labelled centre of generated molecules: all 24/6 neighbour orderings (explicit '
              'and implicit hydrogen), all substituent pairs of double bonds and allenes, checked against permutation parity; setters '
              'with every ordering; (2) exhaustive enumeration of SMILES spellings of one centre / one double bond (neighbour order, '
              'centre position, H in/outside the bracket, ring-closure neighbours, second component, / \\ placements, dienes, '
              'cumulenes, oximes) judged by RDKit and by mutual equality; (3) single-label inversion never gives an equal molecule, '
              'RDKit agrees; (4) marks on non-stereogenic centres are dropped.'
              " The library's own writer in eight styles on labelled molecules up to 18 atoms is judged by RDKit against the spelling of the independent writer."
              ' Wedge notation: every single-wedge marking of a centre (any bond, up/down, either allene terminal) must be stored as a function of the geometric hand; explicit-H spellings also through the RDKit bridge.'
              ' Ring-attached cumulenes with the ring at either terminal (axial family) are held to the permutation-consistency clause.'
              ' Spelling families cover endocyclic E/Z double bonds at the ring-size limit (6-10).',
         note='Trusted: parity from permutation cycles, RDKit as the independent toolkit for the absolute convention (carbon centres, '
              'simple double bonds); pseudo-asymmetric and meso situations are excluded from clause (3) by the symmetry oracle.',
         technique='exhaustive permutation/spelling enumeration + property-based testing with parity and RDKit oracles'),
    dict(id='C13',
         text='Model-based history search: Kekule seed molecules followed by 3-14 drawn operations (add/delete atom and bond, '
              'committed and rolled-back transactions, remap, copy, substructure, union, in-place union, clean_stereo, label, '
              'explicify/implicify) interleaved with reads of drawn subsets of 14 derived values; after every step the molecule is '
              'compared with an independently rebuilt one (fresh container, same numbers/insertion order, labels through the '
              'public setters), adjacency symmetry, rollback restoration and source independence are asserted. Histories are plain '
              'operation lists, so a failure shrinks and replays as one value.'
              ' Exhaustive tier: every ordered pair of 117 concrete operations on 8 seeds of <= 4 atoms, with all values read after every step and with single rotating reads (219k histories thorough, 1/40 slice quick).'
              ' Transactions that edit topology, read derived values inside the block and are rejected; commits with several structural edits.'
              ' Derived containers (copy, substructure, union) must denote the configuration of their source.',
         note='Trusted: the rebuild operator and the C01 symmetry oracle / MCB oracle used to skip values that legitimately depend '
              'on the perceived ring set or fall in documented canonicalisation gaps (counted).',
         technique='model-based (stateful) property-based testing with an independent rebuild as reference model'),
    dict(id='C14',
         text='Generated valence-valid molecules (corpus, curated, constructive without exotic ions, documented rule spellings grafted '
              'in) under a drawn rebuild/renumbering x drawn operations (standardize, canonicalize, fix_resonance, neutralize, '
              'standardize_charges, explicify/implicify, enumerate_tautomers): conservation of heavy atoms / charge / hydrogens '
              '(neutralize balanced), no valence error or exception, idempotence, explicify-implicify inverse, numbering '
              'independence, tautomer-set properties; all 122 documented (spelling, canonical spelling) pairs of the rule tests, '
              'also under two renumberings, with fired rule indices recorded.'
              " Geminal double instances of a documented spelling are grafted; the rule tables' Any-atom lists decide whether one call must finish both."
              ' Every operation is also applied to an object whose derived values were read first.'
              ' Operation order inside a case is drawn (enumeration before neutralize in one interpreter) and curated neutral acid / anion salts are included.',
         note='Trusted: canonical strings for numbering independence (C01 gaps skipped); documented pairs are read from the '
              'repository\'s own rule tests with ast. Rule instances/grafted spellings are only held to heavy-atom conservation, '
              'idempotence and numbering independence because the tables correct hydrogens/charges of mis-spellings on purpose.',
         technique='property-based invariant / idempotence / metamorphic (renumbering) testing plus table-driven documented pairs'),
    dict(id='C15',
         text='Reactions are generated with a known ground truth: reactant-side molecules plus a drawn list of edits (bond order '
              'change / formed / cleaved, charge, radical, atom leaving / joining) give the product side, 0-2 reagents, empty '
              'roles; molecules are permuted inside roles and both sides renumbered consistently. Canonical reaction string '
              'invariance, SMILES read-back of roles and molecules (plain and mapped), every atom and bond of the condensed '
              'graph against the ground truth, empty centre for identical sides and invariance of the condensed-graph string.'
              ' Symmetry of a condensed graph is decided by the independent refinement/orbit oracle on the dynamic labelled graph.'
              ' contract_ions()/remove_reagents() on a reaction with warm caches against a fresh reaction with the same roles.'
              ' explicify_hydrogens() on reactions with reagents: numbers unique per role, reagents disjoint, no spectator atom in the reaction centre.',
         note='Trusted: the ground truth is the generator\'s own edit list; molecule identity within roles uses canonical strings '
              '(C01 gaps skipped) and only for valence-valid reactions.',
         technique='property-based testing with constructed ground truth (reference model = the edit list) and metamorphic permutation/renumbering relations'),
    dict(id='C16',
         text='Generated substrates (functional groups grafted through the API) x 22 synthetic transformation templates covering '
              'each patcher branch and 4 reactor templates (two reactants with colliding numbers, spectator molecules): a '
              'labelled-graph patch model computes the expected product of every reported match (deleted atoms and detached '
              'fragments, in-place element/charge/radical/isotope, new atoms and their numbers, bond orders, hydrogens of patched '
              'atoms from the valence re-derivation); one product per match, input untouched, stereo frame condition, identity '
              'template, unique product numbers, invariance of the product set under renumbering and reactant order.'
              ' Exhaustive reactor mode on a duplicated doubly reactive substrate: only template-named elements may change.'
              ' With fix_aromatic_rings=False and Kekule inputs no product bond may be aromatic.'
              ' A direct shard applies ten templates to labelled tri- and tetrasubstituted alkenes under several numberings.',
         note='Trusted: the patch model in the check (semantics from the property text); matches themselves are taken from the '
              'library (C07 decides them). Aromatic ring fixing is off for the atom-wise comparison.',
         technique='model-based property-based testing (labelled-graph patch model) with metamorphic renumbering/order relations'),
    dict(id='C17',
         text='Generated molecules x drawn parameters (radii 1-6, length 2^4..2^12, active bits 1-4, bit pairs 0-5): linear hash sets '
              'against an independent simple-path enumerator with the multiplicity cap, Morgan sets against an independent iterated '
              'neighbourhood hasher, bit sets/arrays against the documented folding, dictionary keys against the hash sets, and '
              'invariance of all of them under a drawn rebuild with new numbering and insertion order.'
              ' Morgan environment strings are compared with independently cut neighbourhood subgraphs.'
              ' The curated witness list is swept completely on every run.',
         note='Trusted: reference enumerators in the check; hash composition and atom identifier taken as the format definition.',
         technique='differential (reference enumerator) and metamorphic (renumbering) property-based testing'),
    dict(id='C18',
         text='Exhaustive enumeration of the finite domain (118 elements x all tabulated isotopes + unspecified x charge '
              '-4..+4 x radical): lookups against a literal standard table, table-key consistency, mass computability, '
              'pack round trip and independent decoding of the matcher bit layout for every triple. Complete for the '
              'stated finite domain, so exploration here is exhaustive.'
              " The exact query atom of every state is compiled, compared word for word with the documented layout and tested against every molecule-side state of the element with the matcher's q & m == m rule."
              ' Ten different first lookups in fresh interpreters, each followed by all 354 number/symbol lookups.'
              ' Every La..Mc element is matched as a neighbour atom against the query of every other element through the compiled matcher.'
              ' Every tabulated isotope is also packed on a labelled stereocentre where the library accepts a label.',
         note='Trusted: the literal symbol table in the check, the pyx transliterator (no compiled extension in this '
              'sandbox), the independent bit-layout decoder written from the documented layout.',
         technique='exhaustive enumeration of the finite element/isotope/charge domain with round-trip and independent-decoder oracles'),
]
NOT_APPLICABLE = []

CHECKS = [
    dict(id='C01',
         text='Metamorphic search: each generated molecule (corpus, curated, repository literals, constructive and symmetric '
              'constructions with drawn stereo labels) is re-described by rebuild with drawn numbering/insertion order, '
              'copy+remap, the random writer in 5 styles and an RDKit random Kekule spelling; canonical string, ==, hash, '
              'format variants, Morgan partition and written order must agree. Claimed-domain membership is decided by an '
              'independent orbit oracle. Exploration: no claim beyond the cases generated.',
         note='Trusted: orbit/automorphism oracle (vf/oracles/wl.py), RDKit as the second writer, the rebuild operator '
              '(labels read via _translate_*_sign, parity-checked in C12). Genuine canonicaliser defects outside the two '
              'documented gaps are listed in known_findings.json with independent structural detectors.',
         technique='metamorphic property-based testing (Hypothesis) with an independent symmetry oracle'),
    dict(id='C18',
         text='Exhaustive enumeration of the finite domain (118 elements x all tabulated isotopes + unspecified x charge '
              '-4..+4 x radical): lookups against a literal standard table, table-key consistency, mass computability, '
              'pack round trip and independent decoding of the matcher bit layout for every triple. Complete for the '
              'stated finite domain, so exploration here is exhaustive.',
         note='Trusted: the literal symbol table in the check, the pyx transliterator (no compiled extension in this '
              'sandbox), the independent bit-layout decoder written from the documented layout.',
         technique='exhaustive enumeration of the finite element/isotope/charge domain with round-trip and independent-decoder oracles'),
]
NOT_APPLICABLE = []

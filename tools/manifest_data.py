CHECKS = [
    dict(id='C18',
         text='Exhaustive enumeration of the finite domain (118 elements x all tabulated isotopes + unspecified x charge '
              '-4..+4 x radical): lookups against a literal standard table, table-key consistency, mass computability, '
              'pack round trip and independent decoding of the matcher bit layout for every triple. Complete for the '
              'stated finite domain, so exploration here is exhaustive.',
         note='Trusted: the literal symbol table in the check, the pyx transliterator (no compiled extension in this '
              'sandbox), the independent bit-layout decoder written from the documented layout.',
         technique='exhaustive enumeration of the finite element/isotope/charge domain with round-trip and independent-decoder oracles'),
]
NOT_APPLICABLE = []

#!/venv/bin/python
"""regenerate /verif/MANIFEST.json from the table below (kept valid at all times)"""
import json, os, sys
HERE = os.path.dirname(os.path.dirname(os.path.abspath(__file__)))
sys.path.insert(0, HERE)
from tools.manifest_data import CHECKS, NOT_APPLICABLE

BASELINE = json.load(open('/root/.vp/BASELINE.json'))['cmd'] if os.path.exists('/root/.vp/BASELINE.json') else \
    'cd /repo && /venv/bin/python -m pytest -ra -q -p no:cacheprovider --timeout=900 --continue-on-collection-errors --junitxml=<file>'

m = dict(
    version=1,
    setup_cmd='./setup.sh',
    hooks=dict(guard='CHYTHON_VERIF',
               enable='no hook is needed: checks import chython straight from the /repo working tree (VERIF_REPO) '
                      'through the harness-side CachedMethods shim and pyx executor in /verif/vf',
               baseline_off_cmd=BASELINE,
               source_commits=[], add_only=True),
    engines=[dict(name='vf', path='vf/', serves_properties=[c['id'] for c in CHECKS],
                  kind_free_text='Hypothesis strategies / rule-based state machines, exhaustive enumeration of finite '
                                 'sub-domains and atheris fuzzing against independent oracles; 16-way sharded')],
    checks=[],
    notes='run: ./run <ID> <quick|thorough> [--replay file]; exit 0 held / 1 VIOLATION / 2 harness error (inconclusive). '
          'known findings: known_findings.json; seeded breakages: seeded/.',
    not_applicable=NOT_APPLICABLE,
)
claimed = {c['id'] for c in CHECKS} | {n['property_id'] for n in NOT_APPLICABLE}
for line in open(os.path.join(HERE, 'properties.jsonl')):
    pid = json.loads(line)['id']
    if pid not in claimed:
        m['not_applicable'].append(dict(property_id=pid, reason='check not built yet (work in progress); nothing is claimed for it'))
for c in CHECKS:
    m['checks'].append(dict(
        property_id=c['id'], quick_cmd=f"./run {c['id']} quick", thorough_cmd=f"./run {c['id']} thorough",
        evidence_file=f"evidence/{c['id']}.json", replay_cmd_template=f"./run {c['id']} --replay {{path}}",
        engine='vf',
        level_claimed=dict(category=c.get('category', 'exploration'), text=c['text'], design_ref=f"DESIGN.md 2/{c['id']}"),
        level_note=c['note'], technique=c['technique']))
json.dump(m, open(os.path.join(HERE, 'MANIFEST.json'), 'w'), indent=1)
try:
    import jsonschema
    jsonschema.validate(m, json.load(open('/root/.vp/MANIFEST.schema.json')))
    print('MANIFEST valid,', len(m['checks']), 'checks')
except ImportError:
    print('written (jsonschema not importable here)')

#!/bin/bash
# the seed matrix without touching /repo: every seeded change is applied in its own scratch worktree (tools/seed_run_wt.sh) and the
# quick check of its property runs against that tree; several seeds at a time.  usage: VERIF_SEED=2 tools/seed_matrix_wt.sh [jobs]
cd /verif
jobs=${1:-3}
ls seeded | grep -E '^C[0-9]{2}_[a-z]$' | while read name; do
  grep -q obsolete_since seeded/$name/meta.json && { echo "== $name obsolete" >&2; continue; }
  echo $name
done | xargs -P $jobs -I{} sh -c 'n={}; tools/seed_run_wt.sh $n ${n%%_*} 2>&1 | grep "^== "' | sort

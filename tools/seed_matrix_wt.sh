#!/bin/bash
# the seed matrix without touching /repo: every seeded change is applied in its own scratch worktree (tools/seed_run_wt.sh) and the
# quick check of its property runs against that tree (VERIF_REPO); several seeds at a time.  Writes seeded/RESULTS.md unless
# RESULTS=path is given.   usage: [VERIF_SEED=n] [RESULTS=file] tools/seed_matrix_wt.sh [jobs]
cd /verif
jobs=${1:-3}
out=${RESULTS:-seeded/RESULTS.md}
tmp=$(mktemp)
ls seeded | grep -E '^C[0-9]{2}_[a-z]$' | while read name; do
  grep -q obsolete_since seeded/$name/meta.json && { echo "== $name vs ${name%%_*}: obsolete (neutralised by a later fix, see meta.json)" >> $tmp; continue; }
  echo $name
done | xargs -P $jobs -I{} sh -c 'n={}; r=$(tools/seed_run_wt.sh $n ${n%%_*} 2>&1 | grep -E "^== |cannot apply|worktree failed"); echo "${r:-== $n vs ${n%%_*}: no result}"' >> $tmp
{
  echo "Seeded changes against the quick check of their own property (VERIF_SEED=${VERIF_SEED:-1}; each change applied in a scratch worktree, checks run with VERIF_REPO pointing at it; /repo HEAD $(git -C /repo log --format=%h -1))."
  echo
  echo "| seed | own check (quick) |"
  echo "|---|---|"
  sort $tmp | sed -E 's/^== ([A-Z0-9_a-z]+) vs [A-Z0-9]+: (.*)$/| \1 | \2 |/'
} > $out
rm -f $tmp
grep -c "exit=1" $out

#!/bin/bash
# offline setup: make sure hypothesis (and atheris for the C03 thorough tier) are importable by /venv/bin/python
cd "$(dirname "$0")"
export PIP_NO_INDEX=1
if ! /venv/bin/python -c "import hypothesis" 2>/dev/null; then
  mkdir -p .deps
  /venv/bin/pip install --no-index --find-links /opt/veriftools/wheels --target .deps hypothesis >/dev/null 2>&1 || { echo "cannot install hypothesis" >&2; exit 1; }
fi
if ! PYTHONPATH=.deps /venv/bin/python -c "import atheris" 2>/dev/null; then
  mkdir -p .deps
  /venv/bin/pip install --no-index --find-links /opt/veriftools/wheels --target .deps atheris >/dev/null 2>&1 || echo "atheris not installable: C03 fuzz stratum will be skipped (inconclusive for that stratum only)" >&2
fi
/venv/bin/python -c "import rdkit" 2>/dev/null || echo "rdkit missing: RDKit-differential clauses will be skipped and counted" >&2
exit 0
